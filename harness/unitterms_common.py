"""Shared by C05 and C20: unit-arithmetic terms over named atoms, built with the real Unit operators, plus the
independent oracles (normalised monomial of scales / dimension exponent vector / evaluator of a printed expression).

A term is a nested tuple
    ("atom", name) | ("mul", t, t) | ("div", t, t) | ("pow", t, Fraction, form) | ("simp", t) | ("coef", float, t)
depth(atom) = 0, mul/div/pow add one level, simp/coef add none.
"""
import functools
import itertools
import random
from fractions import Fraction

from .common import EXPONENTS, PREFIX, SymReal, close, vabs

E_NONTRIVIAL = [p for p in EXPONENTS if p not in (0, 1)]


def A(n):
    return ("atom", n)


def M(a, b):
    return ("mul", a, b)


def Dv(a, b):
    return ("div", a, b)


def P(a, p, form="frac"):
    return ("pow", a, Fraction(p), form)


def S(a):
    return ("simp", a)


def K(c, a, kind=None):
    """kind (optional, C20): how the coefficient gets onto the unit - see build(); None = Unit(float * unit)"""
    return ("coef", float(c), a) if kind is None else ("coef", float(c), a, kind)


@functools.lru_cache(maxsize=None)
def depth(t):
    k = t[0]
    if k == "atom":
        return 0
    if k in ("mul", "div"):
        return 1 + max(depth(t[1]), depth(t[2]))
    if k == "pow":
        return 1 + depth(t[1])
    if k == "simp":
        return depth(t[1])
    if k == "coef":
        return depth(t[2])
    raise KeyError(k)


def atoms_of(t):
    k = t[0]
    if k == "atom":
        return {t[1]}
    if k in ("mul", "div"):
        return atoms_of(t[1]) | atoms_of(t[2])
    if k == "pow" or k == "simp":
        return atoms_of(t[1])
    if k == "coef":
        return atoms_of(t[2])
    raise KeyError(k)


def fstr(p):
    p = Fraction(p)
    return str(p.numerator) if p.denominator == 1 else f"{p.numerator}|{p.denominator}"


def tid(t):
    """stable, filesystem/fnmatch friendly spelling of a term (used in case ids)"""
    k = t[0]
    if k == "atom":
        return t[1]
    if k == "mul":
        return f"({tid(t[1])}.{tid(t[2])})"
    if k == "div":
        return f"({tid(t[1])}:{tid(t[2])})"
    if k == "pow":
        return f"{tid(t[1])}^{fstr(t[2])}{'' if t[3] == 'frac' else t[3][0]}"
    if k == "simp":
        return f"simp{tid(t[1])}" if t[1][0] != "atom" else f"simp({tid(t[1])})"
    if k == "coef":
        return f"{t[1]!r}x{tid(t[2])}"
    raise KeyError(k)


def exponent_value(p, form, mods=None):
    """the python object handed to Unit.__pow__: the same rational in different clothes"""
    p = Fraction(p)
    if form == "frac":
        return p if p.denominator != 1 else int(p)
    if form == "float":
        return p.numerator / p.denominator
    if form == "sympy":
        import sympy
        return sympy.Rational(p.numerator, p.denominator)
    if form == "npfloat":
        import numpy as np
        return np.float64(p.numerator / p.denominator)
    if form == "str":
        return str(p)
    # further clothes (C20/powform): single precision, decimals cut after 7 / 8 places, sympy Float, numpy integer, Decimal
    x = p.numerator / p.denominator
    if form == "f32":
        import numpy as np
        return np.float32(x)
    if form == "dec7":
        return round(x, 7)
    if form == "dec8":
        return round(x, 8)
    if form == "sfloat":
        import sympy
        return sympy.Float(x)
    if form == "npint":
        import numpy as np
        return np.int64(p.numerator) if p.denominator == 1 else np.float64(x)
    if form == "decimal":
        import decimal
        return decimal.Decimal(repr(round(x, 12)))
    raise KeyError(form)


def build(t, env, mods, reg):
    """run the term through the real Unit operators. env: atom name -> Unit"""
    k = t[0]
    if k == "atom":
        return env[t[1]]
    if k == "mul":
        return build(t[1], env, mods, reg) * build(t[2], env, mods, reg)
    if k == "div":
        return build(t[1], env, mods, reg) / build(t[2], env, mods, reg)
    if k == "pow":
        return build(t[1], env, mods, reg) ** exponent_value(t[2], t[3])
    if k == "simp":
        u = build(t[1], env, mods, reg)
        # simplify() rewrites the expression of the object it is called on: give it a private object, units
        # obtained from strings are shared through the registry's unit object cache
        u = mods["unyt"].Unit(u.expr, base_value=u.base_value, base_offset=u.base_offset, dimensions=u.dimensions, registry=reg)
        return u.simplify()
    if k == "coef":
        u = build(t[2], env, mods, reg)
        kind = t[3] if len(t) > 3 else "qfloat"
        Unit = mods["unyt"].Unit
        if kind == "qfloat":
            return Unit(t[1] * u, registry=reg)
        # the other ways a numeric coefficient gets onto a unit (C20/coefop): an integer-valued quantity, a string with an integer /
        # rational / decimal factor, a bare sympy expression with a Rational factor
        f = Fraction(t[1]).limit_denominator(1000)
        if kind == "qint":
            return Unit(int(f) * u, registry=reg)
        if kind == "strint":
            return Unit(f"{int(f)}*({u})", registry=reg)
        if kind == "strrat":
            return Unit(f"{f.numerator}*({u})/{f.denominator}", registry=reg)
        if kind == "strfloat":
            return Unit(f"{t[1]!r}*({u})", registry=reg)
        if kind == "exprrat":
            import sympy
            return Unit(sympy.Rational(f.numerator, f.denominator) * u.expr, registry=reg)
        raise KeyError(kind)
    raise KeyError(k)


# ------------------------------------------------------------------------------------ exact monomials of positive symbols

def _as_fraction(p):
    """exponent objects the library hands to `scale ** p` -> Fraction (None if not a number)"""
    import numpy as np
    if isinstance(p, bool):
        return None
    if isinstance(p, (int, Fraction)):
        return Fraction(p)
    if isinstance(p, np.integer):
        return Fraction(int(p))
    if isinstance(p, (float, np.floating)):
        f = Fraction(float(p)).limit_denominator(1000)
        if abs(float(f) - float(p)) > 1e-12 * max(1.0, abs(float(p))):
            return None
        return f
    try:
        return Fraction(str(p)).limit_denominator(1000)   # sympy Rational / Integer / Float
    except (ValueError, TypeError):
        return None


def _exact_root(c, f):
    """c ** f for a positive Fraction c and Fraction f: exact when c is a perfect power, else the double nearest to it (A1)"""
    if c == 1:
        return Fraction(1)
    n, d = f.numerator, f.denominator

    def iroot(x):
        try:
            r = round(x ** (1.0 / d))
        except OverflowError:      # an integer beyond the double range (high powers of a float-derived coefficient): not a perfect power we look for
            return None
        for k in (r - 1, r, r + 1):
            if k > 0 and k ** d == x:
                return k
        return None
    if d == 1:
        return c ** n
    a, b = iroot(c.numerator), iroot(c.denominator)
    if a is not None and b is not None:
        return Fraction(a, b) ** n
    return Fraction(float(c) ** (n / d))


MAGNITUDE_DEGREE = 8   # highest total degree of a power product whose magnitude comparison is handed to the solver as a polynomial


class MonoReal(SymReal):
    """A SymReal that is known to be coef * prod(var_i ** n_i) with positive variables and integer n_i, and keeps that form
    under * / and rational powers whenever the result is again such a monomial (the z3 term is rebuilt canonically, no root
    witnesses). A positive scale s is introduced as s = t**N for a fresh positive symbol t (no loss of generality: every positive
    real is an N-th power), so that every root the unit algebra takes of it is exact. Anything else falls back to SymReal."""
    __slots__ = ("coef", "exps", "vars")

    def __init__(self, coef, exps, vars):
        import z3
        from .common import SymReal as _S  # noqa: F401
        from symx.core import rv
        self.coef = Fraction(coef)
        self.exps = {k: int(v) for k, v in exps.items() if v != 0}
        self.vars = vars
        num, den = [], []
        for k in sorted(self.exps):
            e = self.exps[k]
            v = vars[k]
            (num if e > 0 else den).append(v if abs(e) == 1 else v ** abs(e))
        t = rv(self.coef)
        if num:
            t = z3.Product(t, *num) if self.coef != 1 else (z3.Product(*num) if len(num) > 1 else num[0])
        if den:
            t = t / (z3.Product(*den) if len(den) > 1 else den[0])
        self.t = t

    @classmethod
    def power_of(cls, sym, n):
        """sym ** n for a positive plain symbol"""
        name = str(sym.t)
        return cls(1, {name: n}, {name: sym.t})

    def _num(self, o):
        import numpy as np
        if isinstance(o, MonoReal):
            return o
        if isinstance(o, bool):
            return None
        if isinstance(o, (int, float, Fraction, np.floating, np.integer)):
            v = Fraction(o) if not isinstance(o, (np.floating, np.integer)) else Fraction(o.item())
            if v > 0:
                return MonoReal(v, {}, {})
            return None
        if isinstance(o, np.ndarray) and o.shape == () and o.dtype != object:
            return self._num(o[()])
        if getattr(o, "is_Number", False) and getattr(o, "is_positive", False):
            return MonoReal(Fraction(int(o.p), int(o.q)) if getattr(o, "is_Rational", False) else Fraction(float(o)), {}, {})
        return None

    def _combine(self, o, sign):
        ex = dict(self.exps)
        for k, e in o.exps.items():
            ex[k] = ex.get(k, 0) + sign * e
        vs = dict(self.vars)
        vs.update(o.vars)
        return MonoReal(self.coef * o.coef if sign == 1 else self.coef / o.coef, ex, vs)

    def __mul__(self, o):
        m = self._num(o)
        return self._combine(m, 1) if m is not None else SymReal.__mul__(self, o)

    def __rmul__(self, o):
        m = self._num(o)
        return m._combine(self, 1) if m is not None else SymReal.__rmul__(self, o)

    def __truediv__(self, o):
        m = self._num(o)
        return self._combine(m, -1) if m is not None else SymReal.__truediv__(self, o)

    def __rtruediv__(self, o):
        m = self._num(o)
        return m._combine(self, -1) if m is not None else SymReal.__rtruediv__(self, o)

    def _isclose_hook(self, o, rel_tol, abs_tol):
        """math.isclose(c1*M, c2*M) for one power product M > 0 and abs_tol == 0 is math.isclose(c1, c2): decided exactly on the
        rational coefficients (hook of the A3 shim). Different power products: left to the solver."""
        if isinstance(o, MonoReal) and o.exps == self.exps:
            a, b = self.coef, o.coef
            if a == b or abs(a - b) <= Fraction(rel_tol) * max(abs(a), abs(b)):
                return True          # the relative clause holds for every M; an absolute tolerance can only add to it
            if not self.exps:
                return abs(a - b) <= Fraction(abs_tol)     # two plain numbers
            if abs_tol == 0:
                return False
            # what is left of the formula is its absolute clause |c1 - c2| * M <= abs_tol, i.e. M <= K: a question about the
            # MAGNITUDE of the power product. Low total degree: the exact term. High degree (t**N with N in the hundreds: z3's
            # nla::powers computes K-sized rationals to that power and does not honour its timeout): the comparison is
            # answered by a Boolean that is named after (M, K) - the same question gets the same answer on a path - and is
            # otherwise unconstrained. That over-approximates the path condition: 'unsat' verdicts stay valid (they hold on a
            # superset of the path), a model that relies on an impossible combination does not replay and is reported as
            # inconclusive, never as a violation.
            import z3
            from .common import SymBool
            from symx.core import rv
            K = Fraction(abs_tol) / abs(a - b)
            if sum(abs(e) for e in self.exps.values()) <= MAGNITUDE_DEGREE:
                return SymBool(MonoReal(1, self.exps, self.vars).t <= rv(K))
            key = ",".join(f"{k}^{e}" for k, e in sorted(self.exps.items()))
            return SymBool(z3.Bool(f"magnitude!{key}<={K.numerator}/{K.denominator}"))
        return None

    def __pow__(self, p, mod=None):
        f = _as_fraction(p)
        if f is None or any((e * f).denominator != 1 for e in self.exps.values()):
            return SymReal.__pow__(self, p)
        return MonoReal(_exact_root(self.coef, f), {k: int(e * f) for k, e in self.exps.items()}, self.vars)


_ABS = [0]


def mclose(a, b, extra=0, tol=Fraction(1, 10**6)):
    """close(a, b) for scales. Two exact monomials c1*M, c2*M over the same power product M > 0 are compared through the
    equivalent formula  y > 0 => close(c1*y, c2*y)  with a fresh y standing for M (linear for the solver instead of a polynomial
    of degree ~100: |c1*M - c2*M| <= tol*(|c1*M| + |c2*M|) holds for one M > 0 iff it holds for all of them)."""
    if isinstance(a, MonoReal) and isinstance(b, MonoReal) and a.exps == b.exps and a.exps and isinstance(extra, (int, float)) and extra == 0:
        import z3
        from .common import SymBool
        from symx.core import rv
        _ABS[0] += 1
        y = z3.Real(f"mono!{_ABS[0]}")
        c = close(SymReal(rv(a.coef) * y), SymReal(rv(b.coef) * y), tol=tol)
        return SymBool(z3.Implies(y > 0, c.t))
    return close(a, b, extra=extra, tol=tol)


def positive_scale(ctx, name, N=1, replay_range=(1e-12, 1e12)):
    """a positive scale symbol, introduced as t**N (see MonoReal); concrete/pinned modes: the plain number.
    replay_range: see below; cases whose verdict depends on the MAGNITUDE of a scale (and that take no high powers of it) widen it"""
    t = ctx.real(name, pos=True)
    if ctx.symbolic and not ctx.pinned:
        return MonoReal.power_of(t, N)
    if N == 1:
        return t
    try:
        f = float(t) ** N
    except OverflowError:
        f = float("inf")
    # replay / conformance: the same number the symbolic run means (t**N) while that is a comfortable double, else t itself
    # (every positive number is a legitimate scale; a violation that does not reproduce is reported as inconclusive)
    return t ** N if replay_range[0] < f < replay_range[1] else t


def lcm(a, b):
    from math import gcd
    return a * b // gcd(a, b)


@functools.lru_cache(maxsize=None)
def root_degree(t):
    """lcm of the denominators of the accumulated exponents of every sub-term: the N that makes every root of the term exact"""
    m = mono(t)
    d = 1
    for e in m.exps.values():
        d = lcm(d, e.denominator)
    k = t[0]
    if k in ("mul", "div"):
        return lcm(d, lcm(root_degree(t[1]), root_degree(t[2])))
    if k in ("pow", "simp"):
        return lcm(d, root_degree(t[1]))
    if k == "coef":
        return lcm(d, root_degree(t[2]))
    return d


# ------------------------------------------------------------------------------------ oracle: normalised monomial

class Mono:
    """coef * prod(atom ** e): the structure-independent meaning of a term"""

    def __init__(self, coef=Fraction(1), exps=None):
        self.coef = coef  # Fraction or float
        self.exps = {a: Fraction(e) for a, e in (exps or {}).items() if e != 0}

    def __mul__(self, o):
        ex = dict(self.exps)
        for a, e in o.exps.items():
            ex[a] = ex.get(a, Fraction(0)) + e
        return Mono(_cmul(self.coef, o.coef), ex)

    def __truediv__(self, o):
        return self * (o ** -1)

    def __pow__(self, p):
        p = Fraction(p)
        return Mono(_cpow(self.coef, p), {a: e * p for a, e in self.exps.items()})

    def __repr__(self):
        return f"Mono({self.coef}, {self.exps})"


def _cmul(a, b):
    if isinstance(a, Fraction) and isinstance(b, Fraction):
        return a * b
    return float(a) * float(b)


def _cpow(c, p):
    if isinstance(c, Fraction) and (p.denominator == 1):
        return c ** p.numerator if c != 0 or p > 0 else c
    if c == 1:
        return Fraction(1)
    return float(c) ** float(p)


@functools.lru_cache(maxsize=None)
def mono(t):
    k = t[0]
    if k == "atom":
        return Mono(Fraction(1), {t[1]: Fraction(1)})
    if k == "mul":
        return mono(t[1]) * mono(t[2])
    if k == "div":
        return mono(t[1]) / mono(t[2])
    if k == "pow":
        return mono(t[1]) ** t[2]
    if k == "simp":
        return mono(t[1])
    if k == "coef":
        return Mono(Fraction(t[1]), {}) * mono(t[2])
    raise KeyError(k)


def fpow(s, e):
    e = Fraction(e)
    if isinstance(s, SymReal):
        return s ** e
    if e.denominator == 1:
        return float(s) ** e.numerator
    return float(s) ** (e.numerator / e.denominator)


def mono_scale(m, scale_of):
    """coef * prod(scale(atom)**e) with the scales of the harness (symbols or table floats)"""
    r = float(m.coef) if not isinstance(m.coef, Fraction) or m.coef.denominator != 1 else int(m.coef)
    for a in sorted(m.exps):
        r = r * fpow(scale_of[a], m.exps[a])
    return r


def mono_dimvec(m, dimvec_of):
    out = {}
    for a, e in m.exps.items():
        for b, f in dimvec_of[a].items():
            out[b] = out.get(b, Fraction(0)) + e * f
    return {b: f for b, f in out.items() if f != 0}


def dimvec(dims):
    """exponent vector of a sympy dimension expression over the base dimension symbols (independent of sympy's ==)"""
    out = {}
    if dims == 1:
        return out
    for b, e in dims.as_powers_dict().items():
        if b.is_Number:
            if b != 1:
                out["<number %s>" % b] = Fraction(1)
            continue
        f = Fraction(int(e.p), int(e.q)) if hasattr(e, "p") else Fraction(str(e))
        out[str(b)] = out.get(str(b), Fraction(0)) + f
    return {b: f for b, f in out.items() if f != 0}


def eval_expr(expr, scale_of, dimvec_of, lookup=None):
    """independent reading of a unit expression (sympy Mul/Pow/Symbol/Number): -> (scale, dimension vector, coefficient).
    Names are resolved with the harness' own tables; `lookup(name)` -> (scale, dimvec) handles names not in the tables"""
    import sympy
    if isinstance(expr, sympy.Number):
        return float(expr) if not expr.is_Rational or expr.q != 1 else int(expr), {}
    if isinstance(expr, sympy.Symbol):
        n = expr.name
        if n in scale_of:
            return scale_of[n], dict(dimvec_of[n])
        if lookup is not None:
            return lookup(n)
        raise KeyError(n)
    if isinstance(expr, sympy.Pow):
        s, d = eval_expr(expr.args[0], scale_of, dimvec_of, lookup)
        p = expr.args[1]
        if not p.is_Rational:
            raise KeyError(f"exponent {p!r}")
        f = Fraction(int(p.p), int(p.q))
        return fpow(s, f), {b: e * f for b, e in d.items()}
    if isinstance(expr, sympy.Mul):
        s, d = 1, {}
        for a in expr.args:
            sa, da = eval_expr(a, scale_of, dimvec_of, lookup)
            s = s * sa
            for b, e in da.items():
                d[b] = d.get(b, Fraction(0)) + e
        return s, {b: e for b, e in d.items() if e != 0}
    raise KeyError(type(expr).__name__)


def table_unit(name):
    """(SI scale, dimension vector) of a table symbol or an SI-prefixed prefixable table symbol. The scale is read from unyt's table
    (its correctness is C02's subject), the prefix factor from the harness' own prefix table, the split is longest-symbol-first."""
    from unyt._unit_lookup_table import default_unit_symbol_lut as lut
    if name in lut:
        return float(lut[name][0]), dimvec(lut[name][1])
    for p in sorted(PREFIX, key=len, reverse=True):
        b = name[len(p):]
        if name.startswith(p) and b in lut and lut[b][4]:
            return PREFIX[p] * float(lut[b][0]), dimvec(lut[b][1])
    raise KeyError(name)


# same-dimension table pairs whose ratio is not a whole number (either way round), plus a few whole-number ones
RATIO_PAIRS = [("mile", "km"), ("inch", "cm"), ("yr", "day"), ("pc", "AU"), ("kg", "lb"), ("m", "ft"), ("oz", "g"), ("atm", "bar"), ("cal", "J"),
               ("pc", "ly"), ("rad", "degree"), ("psi", "Pa"), ("nmi", "km"), ("m", "yd"), ("hp", "W"), ("lbf", "N"), ("mile", "furlong"), ("Msun", "Mjup"),
               ("fortnight", "day"), ("week", "day"), ("hr", "min"), ("yr", "week")]


def numeric_coefficient(expr):
    """the numeric factor of a unit expression as sympy sees it (1 = no coefficient)"""
    c, _ = expr.as_coeff_Mul()
    return c


# ------------------------------------------------------------------------------------ catalogue

def depth1_terms(atom_names, exponents=None, forms=("frac",)):
    exponents = EXPONENTS if exponents is None else exponents
    out = []
    for a, b in itertools.product(atom_names, atom_names):
        out.append(M(A(a), A(b)))
        out.append(Dv(A(a), A(b)))
    for a in atom_names:
        for p in exponents:
            for f in forms:
                out.append(P(A(a), p, f))
    return out


def _draw(rnd, left, right, exponents):
    kind = rnd.choice(("mul", "div", "pow"))
    if kind == "pow":
        return P(rnd.choice(left), rnd.choice(exponents))
    l, r = rnd.choice(left), rnd.choice(right)
    return M(l, r) if kind == "mul" else Dv(l, r)


def catalogue(atom_names, n2, n3, seed=5, max_den=36):
    """deterministic catalogue: every term of depth <= 1; n2 terms of depth 2 and n3 of depth 3 drawn with a fixed seed out of the
    full set of shapes (operator, operands of lower depth, exponent from E all uniform); terms whose accumulated root degree
    exceeds max_den are skipped"""
    rnd = random.Random(seed)
    atoms = [A(a) for a in atom_names]
    d1 = depth1_terms(atom_names)
    d01 = atoms + d1
    d2, seen, guard = [], set(), 0
    while len(d2) < n2 and guard < 100 * n2 + 100:
        guard += 1
        t = _draw(rnd, d01, d01, EXPONENTS)
        if t in seen or depth(t) != 2 or root_degree(t) > max_den:
            continue
        seen.add(t)
        d2.append(t)
    d3, guard = [], 0
    d012 = d01 + d2
    while len(d3) < n3 and guard < 100 * n3 + 100:
        guard += 1
        t = _draw(rnd, d2, d012, EXPONENTS) if rnd.random() < 0.7 else _draw(rnd, d012, d2, EXPONENTS)
        if t in seen or depth(t) != 3 or root_degree(t) > max_den:
            continue
        seen.add(t)
        d3.append(t)
    return atoms, d1, d2, d3
