"""C05 - Unit objects form a consistent multiplicative algebra."""
import itertools
import random
from fractions import Fraction

from .common import EXPONENTS, PREFIX, And, Case, Not, Or, band, call, check_names, exact_eq, payload, vabs
from .common import close as plain_close
from .unitterms_common import (A, Dv, M, Mono, P, S, build, catalogue, depth, dimvec, eval_expr, exponent_value, fpow, fstr, lcm, mono,
                               mono_dimvec, mono_scale, numeric_coefficient, positive_scale, root_degree, tid)
from .unitterms_common import RATIO_PAIRS, atoms_of, table_unit
from .unitterms_common import mclose as close

LEVEL = "other"
MANIFEST = dict(
    category="other",
    text=("Bounded symbolic execution of the real Unit operators (symx): atoms xa, xb, xc, k+xa (and offset / logarithmic / "
          "same-dimension atoms where the law is about them) live in a custom registry whose scales and offsets are z3 reals; for "
          "every enumerated term shape (all of depth <= 1, a fixed seeded catalogue of depth 2 and 3, exponents from E) the solver "
          "decides per path, for ALL positive scales and all offsets, that scale/dimension/expression of the result equal a "
          "structure-independent monomial oracle, and the laws: commutative, associative, identity, inverse, (u**p)**q == u**(p*q), "
          "(u*v)**p == u**p*v**p, u == v iff scale, offset and dimension agree (never the spelling, and never the SIZE of the scales: the "
          "verdict is the same inside the regimes below 1e-12 / 1e-20 and above 1e12 / 1e20, it survives a common factor of any positive "
          "scale on both sides, and it is the verdict of u/v == 1, u**-1 == v**-1, u**p == v**p; table units from both ends of the table "
          "incl. a sum of two quantities that trusts ==), equal hash for the same "
          "expression, simplify()/as_coeff_unit()/cached unit rules preserve coeff*scale and dimension, offset/logarithmic guards "
          "raise exactly outside the algebra. Operand axis 'spelled alike, valued differently': the same term / pair / triple catalogue, the "
          "equality sandwich and the simplify / as_coeff_unit / cached-rule obligations are walked again over atoms xa, xA, kxA, xb where xA is a "
          "unit NAMED xa with an independent symbolic scale (looked up in a second registry; made before registry.modify; made before "
          "remove + add; built with explicit values), so that names cancel or merge in the expression (xa/xA -> 1, xa*xA -> xa**2) while the "
          "scales do not: every law must hold on (scale, dimension) for all pairs of scales, with the cancelled quotient on either side of "
          "every operator. A simplified unit (expression a bare number or number * symbols) is used as an operand as well. Operand axis 'expression "
          "carries a number': the term / pair / triple / power-of-power catalogue and the simplify / as_coeff_unit / cached-rule obligations are walked "
          "again over atoms xa, cxa = c*xa, cxb = c'*xb, cn = a bare number as a unit, xz = a dimensionless unit with its own symbolic scale, for six "
          "origins of the coefficient (parsed string, sympy expression, Unit(quantity), explicit values, left behind by simplify(), bare-number unit "
          "multiplied in / like symbols divided out), integer, rational and Float coefficients, every exponent of E: scale, dimension and the "
          "expression read back must agree with the monomial c**p * s**p for all scales. Encoding: a positive scale is written s = t**N (N = the root degree the case needs) so "
          "that every rational power is an exact monomial; the exponent bookkeeping of that normal form is harness code (trusted), "
          "the remaining (in)equalities - rounded coefficients, equality bands, offset forks - are z3 queries; all depth <= 1 terms are "
          "also run with plain symbols and the engine's root witnesses (QF_NRA) as a cross-check. Enumerated, not solved: term shapes, "
          "names, exponents. Ground (no solver share): simplify() on cancelling pairs (table units, sympy cannot hold solver terms), "
          "hash/expression identity, dimension vectors. Rounding is outside."),
    design="DESIGN.md section 4 C05",
    technique="symbolic execution of the real Python code over z3 real terms; SMT (QF_NRA / QF_LRA) obligations per path; counterexample replay")
EXPLANATION = (
    "Unit.__mul__/__rmul__/__truediv__/__rtruediv__/__pow__/__eq__/__hash__, is_dimensionless, simplify, _cancel_mul, _factor_pairs, "
    "_create_unit_from_factor, as_coeff_unit, _lookup_unit_symbol/_split_prefix and the lru-cached unit rules of unyt.array "
    "(_multiply_units, _divide_units, _sqrt/_cbrt/_square/_reciprocal/_power_unit) run for real on Unit objects whose base_value/"
    "base_offset are z3 reals. Oracle: the term's normalised monomial coef*prod(s_i**e_i) and its dimension exponent vector, computed "
    "by the harness independently of the order of operations; an independent evaluator reads the resulting sympy expression back. "
    "Per path z3 decides pc & not(P); unsat = the law holds for every positive scale (every real offset). Scales are s = t**N "
    "(MonoReal, harness/unitterms_common.py): products/quotients/rational powers stay exact monomials over the t's, two monomials "
    "over the same power product are compared through 'y > 0 => close(c1*y, c2*y)' (linear), Unit.__eq__'s math.isclose on such a "
    "pair is decided on the exact rational coefficients. Obligations whose two sides normalise to the same term are closed by "
    "z3's simplifier and counted as ground checks. Equality: besides the sandwich around the library's band (equal => scales agree to "
    "1e-8, unequal => not to 1e-10, interior probes), (a) the same obligations restricted to four magnitude regimes with witnesses far "
    "from every band edge, (b) the law family: one restated comparison per case (a common symbolic factor w on both sides in four "
    "operand orders, table factors t_pl / me / Msun / bethe, u/v == 1 in four spellings, inverses, squares, odd and fractional powers) "
    "must give the verdict of u == v for all scales outside the edge zone (a relative 1e-11..1e-7 apart), (c) the magnitude family: "
    "same-dimension table pairs chosen by the size of their scales, verdict from the harness' reading of the table, quotient / inverse "
    "restatements, a symbolic bystander xc**k on both sides, and x*u + y*v == x*s_u + y*s_v in SI for symbolic readings. If a changed "
    "Unit.__eq__ asks for the absolute size of a high-degree power product (math.isclose(..., abs_tol=...)), MonoReal answers a relatively "
    "equal pair at once, hands a power product of total degree <= 8 to the solver and over-approximates the rest (see ASSUMPTIONS). "
    "Family C05/alike/<kind>/...: a Unit carries its own scale, its expression carries only names, and nothing forces two units named xa to "
    "have one scale (two registries; a unit object that outlives registry.modify or remove + add; a unit given explicit values). The atoms "
    "xa, xA (named xa, own positive symbolic scale), kxA (named kxa, 1000 * that scale), xb go through the term, pair and triple obligations "
    "of the main family - oracle: the monomial over the FOUR scales, which knows xa and xA apart; the expression is read back for its dimension "
    "only, a result may live in either operand's registry, equal hashes are asked of two sides in one registry - plus v*(u/v) == u and "
    "u*(v/v) == u, the equality sandwich on 12 pairs (xa == xA iff the scales agree, xb*(xa/xA) == xb iff they agree ...), and simplify / "
    "as_coeff_unit / _multiply_units / _divide_units (both operand orders, warm cache) / unary rules on 10 operand pairs. In every simplify "
    "case the simplified unit is also used as left and right operand of *, / and as base of a power. "
    "Family C05/coef/<origin>/...: the expression of a unit may carry a numeric coefficient (100*xa, 5*xb/2, 2.54*xb, the bare number 40), which is "
    "part of the scale as well - one more place where expression, scale and dimension can drift apart (a step that splits the coefficient off, reads "
    "the unit off the symbols only, or takes 'the expression is a number' for 'nothing to do'). Atoms xa, cxa, cxb, cn, xz (dimensionless, own symbolic "
    "scale) go through the term (every exponent of E in four spellings on the atoms), pair, triple and power-of-power obligations of the main family; "
    "oracle: the monomial coefficient**p * scales**p with the harness' own coefficient table per origin; the expression is read back by the independent "
    "evaluator (numbers, radicals of numbers, symbols). Identical spelling of the two sides of a law is asked only where sympy keeps numbers in one exact "
    "canonical form (no Float, no radical of a number). Forms cases: as_coeff_unit and simplify of u*v, u/v, v*u and of three fractional powers, "
    "_multiply_units / _divide_units (cold, warm, swapped), _sqrt/_cbrt/_square/_reciprocal/_power_unit on 11 operand pairs."
)
BOUNDS = {
    "quick": "atoms {xa, xb, xc, kxa}; all 88 terms of depth <= 1 with every p in E given as Fraction/float/sympy Rational/numpy float, 260 seeded "
             "terms of depth 2 and 260 of depth 3 (root degree <= 36); the 88 shallow terms again in the root-witness encoding; power-of-power over "
             "E x E for 14 terms; all 16 atom pairs + 150 seeded pairs; all 64 atom triples + 100 seeded triples; 31 symbolic + 31 table equality "
             "cases (each with 4 magnitude regimes), 2 symbolic offset-pair cases; 180 equality-law cases (12 pairs of units x up to 30 restatements: "
             "every restatement on 4 main pairs, 7 on the others, odd/fractional powers on pairs of atoms); 122 table pairs chosen by magnitude (per "
             "dimension: all pairs below 1e-9, all pairs above 1e9, smallest vs largest, two smallest, two largest; neighbouring SI prefixes y..Y on "
             "m, eV, g; 26 compound / near-miss pairs) with quotient, inverse, bystander and sum obligations; 12 hash cases + 36 registry-history hash cases (8 expressions x 6 histories of add/modify/remove, 10 ways to rebuild at every point; ground); 260 simplify (incl. 22 same-dimension table pairs, 18 of non-integer ratio, in 5 forms each) and 40 cached-rule cases; guards: 11 units x 11 partners x 4 operators, "
             "26 powers of 11 units; 4 unit-with-number cases; "
             "alike-spelled operands (atoms xa, xA, kxA, xb; kinds tworeg, modify, readd, explicit): all 88 terms of depth <= 1 (those holding xa next "
             "to its partner under all 4 kinds with 5 exponents, the others under one kind in rotation with 3), 60 + 40 seeded terms of depth 2 / 3 "
             "(one kind each, in rotation), all 16 atom pairs (mixed ones under all kinds) + 40 seeded pairs, all 64 atom triples + 30 seeded "
             "triples (one kind each), 12 equality pairs x 4 kinds, 10 simplify/cached-rule operand pairs x 4 kinds: 482 cases; "
             "coefficient-carrying operands (atoms xa, cxa, cxb, cn, xz; 6 origins; coefficients 100, 1000, 5/2, 2.5, 2.54, 40): the 3 coefficient atoms "
             "under all 6 origins with all 13 exponents in 4 spellings, the 50 products / quotients of two atoms (5 exponents), 30 + 20 seeded terms of "
             "depth 2 / 3, power-of-power over E x E for the 3 coefficient atoms, all 25 atom pairs + 15 seeded pairs, 40 of the 125 atom triples + 10 "
             "seeded triples (one origin each, in rotation), 11 simplify/as_coeff_unit/cached-rule operand pairs (6 of them under all origins): 290 cases",
    "thorough": "same atoms; 1800 seeded terms of depth 2 and 1800 of depth 3; power-of-power over E x E for 40 terms; 1000 seeded pairs, 1000 seeded "
                "triples; 1000 simplify and 300 cached-rule cases; equality, hash and guard tables as in quick, plus: 324 equality-law cases (every "
                "restatement on all 12 pairs), 694 magnitude table pairs (EVERY same-dimension pair of the 145 table atoms, prefixes y..Y on 8 bases); "
                "all ordered pairs of the 145 table atoms (ground); alike-spelled operands: every depth <= 1 term, atom pair and atom triple under all "
                "4 kinds, 400 + 400 seeded terms of depth 2 / 3, 300 seeded pairs, 300 seeded triples (one kind each, in rotation), equality and "
                "simplify/cached-rule tables as in quick: 2322 cases; coefficient-carrying operands: every depth <= 1 term (incl. all powers of "
                "atoms) and atom pair holding a coefficient atom under all 6 origins, 300 + 300 seeded terms of depth 2 / 3, 200 seeded pairs, all 125 atom "
                "triples + 200 seeded triples, power-of-power and forms tables under all origins",
}
OUTSIDE = ("IEEE rounding (A1); cancellation inside simplify() with symbolic scales (table units there: ground obligations); term shapes "
           "beyond the catalogue (depth > 3, root degree > 36); units of non-positive scale; hash equality of *different* spellings of "
           "equal units (not promised by the property); offsets on units that are neither temperature nor angle; u**0 of an offset unit; "
           "cross-registry operands other than the like-named pair of the alike family (a symbol missing from the left operand's registry, "
           "registries of different unit systems: C13); in the alike family: the scale read back from the expression (the expression cannot "
           "tell like-named units apart - only its dimension is asserted), equal hashes of equal units that live in two registries, simplify() "
           "of an expression holding two DIFFERENT names of one dimension next to a like-named pair (xa with kxa: it cancels them with the "
           "registry's current scales, symbolic there), like-named partners obtained by copy / deepcopy / pickle (C11, C13) or carrying an offset; "
           "equality restatements inside the edge zone of the band (scales a relative 1e-11..1e-7 apart: "
           "rounding and |p| <= 3 may tip the verdict there); scales below 1e-90 / above 1e90 in replays of the equality cases; "
           "odd and fractional powers of compound pairs in the law family (atoms only); in the coefficient family: the SPELLING of a result whose "
           "expression holds a Float or a radical of a number (two routes may spell one number differently; scale, dimension and == are asserted), "
           "simplify() of a dimensionless unit with a symbolic scale (it folds the scale into the coefficient: the table's % is used there), symbolic "
           "coefficients (sympy cannot hold a solver term: six concrete values)")
ASSUMPTIONS = ["MonoReal (harness/unitterms_common.py): a positive scale symbol is introduced as t**N; the exponent arithmetic that keeps products, "
               "quotients and rational powers of such scales in exact monomial form, and the reduction of closeness/isclose of two monomials over the "
               "same power product to their rational coefficients, are harness code",
               "MonoReal._isclose_hook with abs_tol != 0 (only reached on a tree whose Unit.__eq__ passes one): the absolute clause |c1-c2|*M <= abs_tol "
               "of a power product M of total degree > 8 is answered by a free Boolean named after (M, bound) instead of the polynomial (z3 does not "
               "honour its timeout on t**216 against 1e-12). This weakens the path condition, so 'holds' verdicts stay valid; a model that needs an "
               "impossible combination does not replay and is reported as inconclusive"]
CONFORM = {"quick": 40, "thorough": 120}

NAMES = ["xa", "xb", "xc", "xd", "xn", "xq", "xq2", "xt", "xu", "xg", "xl", "xz"]
ATOMS = ["xa", "xb", "xc", "kxa"]
ATOM_DEF = {"kxa": Mono(Fraction(1000), {"xa": Fraction(1)})}
FORMS = ["frac", "float", "sympy", "npfloat"]

# independent table of the table units used here (SI scale, dimension vector): written for this check
L_, M_, T_, TH_, ANG_, LOG_ = "(length)", "(mass)", "(time)", "(temperature)", "(angle)", "(logarithmic)"
F = Fraction
TABLE = {
    "m": (1.0, {L_: F(1)}), "cm": (0.01, {L_: F(1)}), "km": (1000.0, {L_: F(1)}), "mm": (0.001, {L_: F(1)}),
    "inch": (0.0254, {L_: F(1)}), "g": (0.001, {M_: F(1)}), "kg": (1.0, {M_: F(1)}), "s": (1.0, {T_: F(1)}),
    "ms": (0.001, {T_: F(1)}), "min": (60.0, {T_: F(1)}), "J": (1.0, {M_: F(1), L_: F(2), T_: F(-2)}), "erg": (1e-7, {M_: F(1), L_: F(2), T_: F(-2)}),
    "N": (1.0, {M_: F(1), L_: F(1), T_: F(-2)}), "dyn": (1e-5, {M_: F(1), L_: F(1), T_: F(-2)}),
    "W": (1.0, {M_: F(1), L_: F(2), T_: F(-3)}), "Pa": (1.0, {M_: F(1), L_: F(-1), T_: F(-2)}), "Hz": (1.0, {T_: F(-1)}),
    "K": (1.0, {TH_: F(1)}), "rad": (1.0, {ANG_: F(1)}), "%": (0.01, {}), "dimensionless": (1.0, {}),
}


def mono_expand(t, defs=None):
    """monomial over the *base* atoms: kxa is 1000 * xa (prefix table of the harness); defs: further atom definitions of the case"""
    m = mono(t)
    out = Mono(m.coef, {})
    for a, e in m.exps.items():
        d = defs[a] if defs and a in defs else (ATOM_DEF[a] if a in ATOM_DEF else Mono(Fraction(1), {a: Fraction(1)}))
        out = out * (d ** e)
    return out


def make_env(ctx, extra=(), N=1, witness=False, wide=False):
    """custom registry (defaults kept, so table units are available too) with symbolic-scale atoms.
    Scales are s = t**N for positive symbols t (N = the root degree the case needs, so that every root is an exact monomial);
    witness=True uses plain positive symbols instead and leaves the roots to the engine's witness variables.
    wide=True (equality cases: small N, no high powers): a model replays with the scale t**N it means down to 1e-90 / up to 1e90 (cubes are still doubles)."""
    D = ctx.mods["unyt"].dimensions
    Unit = ctx.mods["unyt"].Unit
    reg = ctx.registry([])
    rr = (1e-90, 1e90) if wide else (1e-12, 1e12)

    def pscale(c, name, n):
        return positive_scale(c, name, n, replay_range=rr)
    if witness:
        sa, sb, sc = ctx.real("sa", pos=True), ctx.real("sb", pos=True), ctx.real("sc", pos=True)
    else:
        sa, sb, sc = pscale(ctx, "ta", N), pscale(ctx, "tb", N), pscale(ctx, "tc", N)
    ctx.add_row(reg, "xa", D.length, sa, 0.0, prefixable=True)
    ctx.add_row(reg, "xb", D.mass, sb, 0.0)
    ctx.add_row(reg, "xc", D.time, sc, 0.0)
    scale_of = {"xa": sa, "xb": sb, "xc": sc}
    dimvec_of = {"xa": {L_: F(1)}, "xb": {M_: F(1)}, "xc": {T_: F(1)}}
    for n in extra:
        if n == "xd":      # same dimension as xa, independent scale
            s = pscale(ctx, "td", N)
            ctx.add_row(reg, "xd", D.length, s, 0.0)
            scale_of[n], dimvec_of[n] = s, {L_: F(1)}
        elif n == "xn":    # a 'newton' of the custom system: same unit as xb*xa/xc**2, other spelling
            s = sb * sa / (sc * sc)
            ctx.add_row(reg, "xn", D.mass * D.length / D.time**2, s, 0.0)
            scale_of[n], dimvec_of[n] = s, {M_: F(1), L_: F(1), T_: F(-2)}
        elif n == "xq":    # same dimension as xn, independent scale
            s = pscale(ctx, "tq", N)
            ctx.add_row(reg, "xq", D.force, s, 0.0)
            scale_of[n], dimvec_of[n] = s, {M_: F(1), L_: F(1), T_: F(-2)}
        elif n == "xz":    # dimensionless with a scale (like percent)
            s = pscale(ctx, "tz", N)
            ctx.add_row(reg, "xz", D.dimensionless, s, 0.0)
            scale_of[n], dimvec_of[n] = s, {}
        elif n in TABLE:
            scale_of[n], dimvec_of[n] = TABLE[n]
        else:
            scale_of[n], dimvec_of[n] = table_unit(n)
    env = _Env(Unit, reg)
    return reg, env, scale_of, dimvec_of


# operands that are SPELLED ALIKE AND VALUED DIFFERENTLY. A Unit carries its own scale; its expression only carries names. Two units
# named xa need not have one scale: they may belong to two registries (two simulation outputs, each with its own code_length), one may
# have been made before and one after registry.modify / remove + add, or one may have been given explicit values. In a product or
# quotient of such a pair the NAMES combine or cancel (xa/xa -> 1, xa*xa -> xa**2) while the SCALES do not: the result's expression says
# less than its scale, and any step that reads the unit off the expression (an early return for 'expression is 1', an equality shortcut
# on equal expressions, a rebuild from the expression) goes wrong exactly there. Atoms of this family: xa, xb, xc as before, xA = the
# like-named partner of xa (expression xa, independent scale), kxA = its prefixed form (expression kxa).
ALIKE_KINDS = ["tworeg", "modify", "readd", "explicit"]
ALIKE_ATOMS = ["xa", "xA", "kxA", "xb"]
ATOM_DEF["kxA"] = Mono(Fraction(1000), {"xA": Fraction(1)})


def make_alike_env(ctx, kind, N=1, wide=False):
    """-> reg (home registry: xa, xb, xc, kxa are looked up there), env, scale_of, dimvec_of, registries an operand may come from.
    kind = how the like-named partner xA came to be:
      tworeg    a second registry whose row xa has another scale; xA, kxA are looked up there
      modify    xA, kxA are looked up in the home registry, then registry.modify('xa', new scale)
      readd     the same with registry.remove('xa'); registry.add('xa', new scale, ...)
      explicit  Unit('xa', base_value=..., dimensions=..., registry=home): a unit object given its own values
    Both scales are independent positive symbols (t**N)."""
    D = ctx.mods["unyt"].dimensions
    Unit = ctx.mods["unyt"].Unit
    rr = (1e-90, 1e90) if wide else (1e-12, 1e12)
    sa, sl, sb, sc = (positive_scale(ctx, n, N, replay_range=rr) for n in ("ta", "tl", "tb", "tc"))

    def rows(reg, s):
        ctx.add_row(reg, "xa", D.length, s, 0.0, prefixable=True)
        ctx.add_row(reg, "xb", D.mass, sb, 0.0)
        ctx.add_row(reg, "xc", D.time, sc, 0.0)
    reg = ctx.registry([])
    regs = [reg]
    if kind == "tworeg":
        rows(reg, sa)
        other = ctx.registry([])
        rows(other, sl)
        regs.append(other)
        like, klike = Unit("xa", registry=other), Unit("kxa", registry=other)
    elif kind in ("modify", "readd"):
        rows(reg, sl)
        like, klike = Unit("xa", registry=reg), Unit("kxa", registry=reg)
        if kind == "modify":
            reg.modify("xa", sa)
        else:
            reg.remove("xa")
            reg.add("xa", sa, D.length, prefixable=True)
    elif kind == "explicit":
        rows(reg, sa)
        like = Unit("xa", base_value=sl, dimensions=D.length, registry=reg)
        klike = Unit("kxa", base_value=sl * 1000.0, dimensions=D.length, registry=reg)
    else:
        raise KeyError(kind)
    env = _Env(Unit, reg)
    env["xA"], env["kxA"] = like, klike
    scale_of = {"xa": sa, "xA": sl, "xb": sb, "xc": sc}
    dimvec_of = {"xa": {L_: F(1)}, "xA": {L_: F(1)}, "xb": {M_: F(1)}, "xc": {T_: F(1)}}
    return reg, env, scale_of, dimvec_of, regs


class _Env(dict):
    def __init__(self, Unit, reg):
        super().__init__()
        self.Unit, self.reg = Unit, reg

    def __missing__(self, n):
        u = self.Unit(n, registry=self.reg)
        self[n] = u
        return u


def check_unit(ctx, tag, u, m, scale_of, dimvec_of, reg, observe=True, alike=None):
    """the three parallel representations of one unit (scale, dimensions, expression) against the oracle monomial.
    alike = the registries of the operands, in the family whose operands are spelled alike and valued differently: there the expression
    cannot tell the two apart, so only its dimension is read back, and the result lives in one of the operands' registries"""
    want = mono_scale(m, scale_of)
    wd = mono_dimvec(m, dimvec_of)
    ctx.require(f"{tag}: scale is the product of powers of scales", close(u.base_value, want))
    ctx.require(f"{tag}: dimension is the product of powers of dimensions", dimvec(u.dimensions) == wd)
    es, ed = eval_expr(u.expr, scale_of, dimvec_of, lookup=_prefix_lookup(scale_of, dimvec_of))
    if alike is None:
        ctx.require(f"{tag}: expression denotes the same scale", close(es, want))
    ctx.require(f"{tag}: expression denotes the same dimension", ed == wd)
    if alike is None:
        ctx.require(f"{tag}: zero offset, same registry", And(exact_eq(u.base_offset, 0.0), u.registry is reg))
    else:
        ctx.require(f"{tag}: zero offset, registry of an operand", And(exact_eq(u.base_offset, 0.0), any(u.registry is r for r in alike)))
    ctx.require(f"{tag}: is_dimensionless agrees", u.is_dimensionless == (wd == {}))
    if observe:
        ctx.observe(f"{tag}: scale", u.base_value)
        ctx.observe(f"{tag}: str", str(u))


def _prefix_lookup(scale_of, dimvec_of):
    def lookup(n):
        if n == "kxa":
            return scale_of["xa"] * PREFIX["k"], dict(dimvec_of["xa"])
        if n in TABLE:
            return TABLE[n][0], dict(TABLE[n][1])
        return table_unit(n)
    return lookup


def _has_float(expr):
    """does the expression hold a number that sympy does not keep in one canonical exact form: a Float, or a radical of a number
    (40**(9/4) and (80*sqrt(10))**(3/2) are the same number in two spellings)"""
    import sympy
    return bool(expr.atoms(sympy.Float)) or irrational_factor(expr)


def irrational_factor(expr):
    """does the expression hold a power of a NUMBER (sqrt(10), 5**(2/3)): a numeric factor that is not a sympy Number"""
    import sympy
    return any(q.base.is_Number for q in expr.atoms(sympy.Pow))


def same_unit(ctx, tag, lhs, rhs, m, scale_of, dimvec_of, identical_expr=False, cross=False):
    """a law lhs == rhs: both sides equal the oracle, agree in dimension, and the real Unit.__eq__/__ne__ say so.
    cross (operands of two registries): the two sides may live in different registries, equal hashes are asked of one registry only"""
    want = mono_scale(m, scale_of)
    wd = mono_dimvec(m, dimvec_of)
    ctx.require(f"{tag}: scales", And(close(lhs.base_value, want), close(rhs.base_value, want), close(lhs.base_value, rhs.base_value)))
    ctx.require(f"{tag}: dimensions", And(dimvec(lhs.dimensions) == wd, dimvec(rhs.dimensions) == wd))
    ctx.require(f"{tag}: offsets", And(exact_eq(lhs.base_offset, 0.0), exact_eq(rhs.base_offset, 0.0)))
    eq = bool(lhs == rhs)
    ctx.require(f"{tag}: Unit.__eq__", eq)
    ctx.require(f"{tag}: Unit.__ne__", (lhs != rhs) is (not eq))
    if identical_expr and (_has_float(lhs.expr) or _has_float(rhs.expr)):
        identical_expr = False   # a rounded coefficient (sympy Float) or a radical of a number: two routes may spell it differently, the spelling is not asserted
    if identical_expr and cross and lhs.registry is not rhs.registry:
        ctx.require(f"{tag}: identical expression", lhs.expr == rhs.expr)
    elif identical_expr:
        ctx.require(f"{tag}: identical expression and hash", And(lhs.expr == rhs.expr, hash(lhs) == hash(rhs)))


# ----------------------------------------------------------------------------- term cases: homomorphism + unary laws

def make_term_case(t, ps, witness=False, alike=None, coef=None):
    N = root_degree(t) * 6

    def h(ctx):
        defs = None
        if coef is not None:
            reg, env, scale_of, dimvec_of, defs = make_coef_env(ctx, coef, N=N)
            regs, x = None, False
        elif alike is None:
            reg, env, scale_of, dimvec_of = make_env(ctx, N=N, witness=witness)
            regs, x = None, False
        else:
            reg, env, scale_of, dimvec_of, regs = make_alike_env(ctx, alike, N=N)
            x = True
        Unit = ctx.mods["unyt"].Unit
        m = mono_expand(t, defs)
        u = build(t, env, ctx.mods, reg)
        check_unit(ctx, "term", u, m, scale_of, dimvec_of, reg, alike=regs)
        u2 = build(t, env, ctx.mods, reg)
        ctx.require("term: same expression, same registry state => same hash, equal, identical expression",
                    And(hash(u) == hash(u2), u.expr == u2.expr, bool(u == u2)))
        one = Unit(registry=reg)
        onem = Mono()
        same_unit(ctx, "identity u*1", u * one, u, m, scale_of, dimvec_of, True, x)
        same_unit(ctx, "identity 1*u", one * u, u, m, scale_of, dimvec_of, True, x)
        same_unit(ctx, "identity u/1", u / one, u, m, scale_of, dimvec_of, True, x)
        same_unit(ctx, "identity u**1", u ** 1, u, m, scale_of, dimvec_of, True, x)
        same_unit(ctx, "u**0 is the identity", u ** 0, one, onem, scale_of, dimvec_of, True, x)
        inv = u ** -1
        check_unit(ctx, "inverse", inv, m ** -1, scale_of, dimvec_of, reg, observe=False, alike=regs)
        same_unit(ctx, "inverse u*u**-1", u * inv, one, onem, scale_of, dimvec_of, True, x)
        same_unit(ctx, "inverse u**-1*u", inv * u, one, onem, scale_of, dimvec_of, True, x)
        same_unit(ctx, "inverse u/u", u / u, one, onem, scale_of, dimvec_of, True, x)
        same_unit(ctx, "inverse 1/u", one / u, inv, m ** -1, scale_of, dimvec_of, True, x)
        same_unit(ctx, "inverse (u**-1)**-1", inv ** -1, u, m, scale_of, dimvec_of, True, x)
        same_unit(ctx, "u*u == u**2", u * u, u ** 2, m ** 2, scale_of, dimvec_of, True, x)
        r = 1 / u        # Unit.__rtruediv__ -> a quantity
        ctx.require("1/u (number over unit) is the quantity 1 in u**-1", And(close(payload(r)[0], 1.0), bool(r.units == inv), r.units.expr == inv.expr))
        for p in ps:
            ref = u ** exponent_value(p, "frac")
            check_unit(ctx, f"u**{fstr(p)}", ref, m ** p, scale_of, dimvec_of, reg, observe=False, alike=regs)
            for f in FORMS[1:]:
                w = u ** exponent_value(p, f)
                ctx.require(f"u**{fstr(p)}: exponent given as {f} == as Fraction",
                            And(w.expr == ref.expr, hash(w) == hash(ref), close(w.base_value, ref.base_value), dimvec(w.dimensions) == dimvec(ref.dimensions)))
    if coef is not None:
        return Case(f"C05/coef/{coef}/term/d{depth(t)}/{tid(t)}", h, group="coef")
    if alike is not None:
        return Case(f"C05/alike/{alike}/term/d{depth(t)}/{tid(t)}", h, group="alike")
    return Case(f"C05/{'termw' if witness else 'term'}/d{depth(t)}/{tid(t)}", h, group="term")


def make_powpow_case(t, p, coef=None):
    N = root_degree(t) * 36

    def h(ctx):
        defs = None
        if coef is not None:
            reg, env, scale_of, dimvec_of, defs = make_coef_env(ctx, coef, N=N)
        else:
            reg, env, scale_of, dimvec_of = make_env(ctx, N=N)
        m = mono_expand(t, defs)
        u = build(t, env, ctx.mods, reg)
        up = u ** exponent_value(p, "frac")
        for q in EXPONENTS:
            lhs = up ** exponent_value(q, "float")
            rhs = u ** exponent_value(p * q, "frac")
            same_unit(ctx, f"(u**p)**{fstr(q)} == u**(p*q)", lhs, rhs, m ** (p * q), scale_of, dimvec_of, True)
            ctx.observe(f"q={fstr(q)}", lhs.base_value)
    if coef is not None:
        return Case(f"C05/coef/{coef}/powpow/{tid(t)}/p={fstr(p)}", h, group="coef")
    return Case(f"C05/powpow/{tid(t)}/p={fstr(p)}", h, group="powpow")


def make_pair_case(t1, t2, ps, alike=None, coef=None):
    N = lcm(root_degree(t1), root_degree(t2)) * 6

    def h(ctx):
        defs = None
        if coef is not None:
            reg, env, scale_of, dimvec_of, defs = make_coef_env(ctx, coef, N=N)
            regs, x = None, False
        elif alike is None:
            reg, env, scale_of, dimvec_of = make_env(ctx, N=N)
            regs, x = None, False
        else:
            reg, env, scale_of, dimvec_of, regs = make_alike_env(ctx, alike, N=N)
            x = True
        m1, m2 = mono_expand(t1, defs), mono_expand(t2, defs)
        u, v = build(t1, env, ctx.mods, reg), build(t2, env, ctx.mods, reg)
        same_unit(ctx, "commutative u*v == v*u", u * v, v * u, m1 * m2, scale_of, dimvec_of, True, x)
        check_unit(ctx, "u*v", u * v, m1 * m2, scale_of, dimvec_of, reg, alike=regs)
        check_unit(ctx, "u/v", u / v, m1 / m2, scale_of, dimvec_of, reg, alike=regs)
        same_unit(ctx, "u/v == u*v**-1", u / v, u * v ** -1, m1 / m2, scale_of, dimvec_of, True, x)
        same_unit(ctx, "u/v == (v/u)**-1", u / v, (v / u) ** -1, m1 / m2, scale_of, dimvec_of, True, x)
        same_unit(ctx, "(u/v)*v == u", (u / v) * v, u, m1, scale_of, dimvec_of, True, x)
        same_unit(ctx, "(u*v)/v == u", (u * v) / v, u, m1, scale_of, dimvec_of, True, x)
        if alike is not None or coef is not None:
            same_unit(ctx, "v*(u/v) == u", v * (u / v), u, m1, scale_of, dimvec_of, True, x)
            same_unit(ctx, "u*(v/v) == u", u * (v / v), u, m1, scale_of, dimvec_of, True, x)
        for p in ps:
            e = exponent_value(p, "frac")
            same_unit(ctx, f"(u*v)**{fstr(p)} == u**p*v**p", (u * v) ** e, u ** e * v ** e, (m1 * m2) ** p, scale_of, dimvec_of, True, x)
            same_unit(ctx, f"(u/v)**{fstr(p)} == u**p/v**p", (u / v) ** e, u ** e / v ** e, (m1 / m2) ** p, scale_of, dimvec_of, True, x)
    if coef is not None:
        return Case(f"C05/coef/{coef}/pair/{tid(t1)},{tid(t2)}", h, group="coef")
    if alike is not None:
        return Case(f"C05/alike/{alike}/pair/{tid(t1)},{tid(t2)}", h, group="alike")
    return Case(f"C05/pair/{tid(t1)},{tid(t2)}", h, group="pair")


def make_triple_case(t1, t2, t3, alike=None, coef=None):
    N = lcm(lcm(root_degree(t1), root_degree(t2)), root_degree(t3))

    def h(ctx):
        defs = None
        if coef is not None:
            reg, env, scale_of, dimvec_of, defs = make_coef_env(ctx, coef, N=N)
            x = False
        elif alike is None:
            reg, env, scale_of, dimvec_of = make_env(ctx, N=N)
            x = False
        else:
            reg, env, scale_of, dimvec_of, regs = make_alike_env(ctx, alike, N=N)
            x = True
        m1, m2, m3 = mono_expand(t1, defs), mono_expand(t2, defs), mono_expand(t3, defs)
        u, v, w = (build(t, env, ctx.mods, reg) for t in (t1, t2, t3))
        same_unit(ctx, "associative (u*v)*w == u*(v*w)", (u * v) * w, u * (v * w), m1 * m2 * m3, scale_of, dimvec_of, True, x)
        same_unit(ctx, "(u/v)/w == u/(v*w)", (u / v) / w, u / (v * w), m1 / m2 / m3, scale_of, dimvec_of, True, x)
        same_unit(ctx, "u*(v/w) == (u*v)/w", u * (v / w), (u * v) / w, m1 * m2 / m3, scale_of, dimvec_of, True, x)
        same_unit(ctx, "u/(v/w) == (u*w)/v", u / (v / w), (u * w) / v, m1 * m3 / m2, scale_of, dimvec_of, True, x)
        ctx.observe("(u*v)*w", ((u * v) * w).base_value)
    if coef is not None:
        return Case(f"C05/coef/{coef}/triple/{tid(t1)},{tid(t2)},{tid(t3)}", h, group="coef")
    if alike is not None:
        return Case(f"C05/alike/{alike}/triple/{tid(t1)},{tid(t2)},{tid(t3)}", h, group="alike")
    return Case(f"C05/triple/{tid(t1)},{tid(t2)},{tid(t3)}", h, group="triple")


# ----------------------------------------------------------------------------- equality is decided by scale, offset, dimension

REGIMES = [("below 1e-12", None, 1e-12), ("below 1e-20", None, 1e-20), ("above 1e12", 1e12, None), ("above 1e20", 1e20, None)]


def in_regime(s, lo, hi):
    return (s >= lo) if hi is None else (s <= hi)


def rel_gap_between(su, sv, lo, hi):
    """lo < |su - sv| / mean(su, sv) < hi for positive scales (polymorphic)"""
    gap = vabs(su - sv)
    mid = (su + sv) * 0.5
    return And(gap > mid * lo, gap < mid * hi)


def sandwich(ctx, tag, u, v, su, sv, ou, ov, dims_equal, regimes=True):
    """u == v  <=>  isclose(scale) & isclose(offset) & same dimension, asserted with a gap around the library's 1e-9 band so
    that any model replays robustly: equal => agree to 1e-8; not equal => not (agree to 1e-10).
    regimes: the verdict is a matter of the RATIO of the scales only - the same obligations again inside the magnitude regimes
    (both scales below 1e-12 / 1e-20, above 1e12 / 1e20), with counterexamples that sit far from every band edge: equal units are
    never a factor two apart, unequal units never closer than 1e-11, however small or large both scales are"""
    t8, t10 = Fraction(1, 10**8), Fraction(1, 10**10)
    eq = bool(u == v)
    if eq:
        ctx.require(f"{tag}: == only if scale, offset, dimension agree", And(plain_close(su, sv, tol=t8), plain_close(ou, ov, tol=t8), dims_equal))
    else:
        ctx.require(f"{tag}: != only if scale, offset or dimension differ", Not(And(plain_close(su, sv, tol=t10), plain_close(ou, ov, tol=t10), dims_equal)))
    # interior probes (implied by the two obligations above): their counterexamples lie strictly inside a band, so that a wrong
    # tolerance in Unit.__eq__ yields a model that replays robustly in IEEE doubles instead of one sitting on the band's edge
    if dims_equal:
        gap = vabs(su - sv)
        mid = (su + sv) * 0.5
        for lo, hi in ((3e-8, 1e-7), (3e-6, 1e-5), (3e-4, 1e-3)) if eq else ((3e-12, 1e-11), (3e-11, 1e-10)):
            ctx.require(f"{tag}: {'==' if eq else '!='} never with scales a relative {lo:g}..{hi:g} apart (offsets equal)",
                        Not(And(gap > mid * lo, gap < mid * hi, plain_close(ou, ov, tol=t10))))
        if regimes:
            for rname, lo, hi in REGIMES:
                both = And(in_regime(su, lo, hi), in_regime(sv, lo, hi), plain_close(ou, ov, tol=t10))
                if eq:
                    ctx.require(f"{tag}: == never with both scales {rname} and a factor two or more apart (offsets equal)",
                                Not(And(both, Or(su >= sv * 2, sv >= su * 2))))
                else:
                    ctx.require(f"{tag}: != never with both scales {rname} and closer than a relative 1e-11 (offsets equal)",
                                Not(And(both, gap < mid * 1e-11)))
        if eq:
            # the same for the offsets, whatever their size: equal units never have offsets a relative 0.1 apart
            ctx.require(f"{tag}: == never with offsets a relative 0.1 or more apart",
                        Not(And(vabs(ou - ov) >= (vabs(ou) + vabs(ov)) * 0.1, vabs(ou - ov) > 0)))
    ctx.require(f"{tag}: symmetric", bool(v == u) is eq)
    ctx.require(f"{tag}: != is the negation", (u != v) is (not eq))
    ctx.observe(f"{tag}: eq", eq)
    return eq


EQ_PAIRS = [
    # (id, extra atoms, lhs term, rhs term)  - terms over atoms incl. table units
    ("xa=xd", ["xd"], A("xa"), A("xd")),
    ("kxa=xd", ["xd"], A("kxa"), A("xd")),
    ("xa^2=xd^2", ["xd"], P(A("xa"), 2), P(A("xd"), 2)),
    ("xa^1|2=xd^1|2", ["xd"], P(A("xa"), F(1, 2)), P(A("xd"), F(1, 2))),
    ("xa.xb=xd.xb", ["xd"], M(A("xa"), A("xb")), M(A("xd"), A("xb"))),
    ("xa:xc=xd:xc", ["xd"], Dv(A("xa"), A("xc")), Dv(A("xd"), A("xc"))),
    ("xa.xa=xa.xd", ["xd"], M(A("xa"), A("xa")), M(A("xa"), A("xd"))),
    ("xa:xd=one", ["xd", "dimensionless"], Dv(A("xa"), A("xd")), A("dimensionless")),
    ("xn=xb.xa:xc^2", ["xn"], A("xn"), Dv(M(A("xb"), A("xa")), P(A("xc"), 2))),
    ("xn=xa.xb.xc^-2", ["xn"], A("xn"), M(M(A("xa"), A("xb")), P(A("xc"), -2))),
    ("xn.xa=xb.xa^2:xc^2", ["xn"], M(A("xn"), A("xa")), Dv(M(A("xb"), P(A("xa"), 2)), P(A("xc"), 2))),
    ("xn^1|2=(xb.xa)^1|2:xc", ["xn"], P(A("xn"), F(1, 2)), Dv(P(M(A("xb"), A("xa")), F(1, 2)), A("xc"))),
    ("xq=xn", ["xq", "xn"], A("xq"), A("xn")),
    ("xq=xb.xa:xc^2", ["xq"], A("xq"), Dv(M(A("xb"), A("xa")), P(A("xc"), 2))),
    ("xq:xn=one", ["xq", "xn", "dimensionless"], Dv(A("xq"), A("xn")), A("dimensionless")),
    ("xa=xb", [], A("xa"), A("xb")),                      # different dimension: never equal, whatever the scales
    ("xa=xa^2", [], A("xa"), P(A("xa"), 2)),
    ("xa^2=xa.xd", ["xd"], P(A("xa"), 2), M(A("xa"), A("xd"))),
    ("xa:xa=xb:xb", [], Dv(A("xa"), A("xa")), Dv(A("xb"), A("xb"))),
    ("xz=one", ["xz", "dimensionless"], A("xz"), A("dimensionless")),
    ("xz=%", ["xz", "%"], A("xz"), A("%")),
    ("xz.xa=xd", ["xz", "xd"], M(A("xz"), A("xa")), A("xd")),
    ("xa=m", ["m"], A("xa"), A("m")),
    ("xa=km", ["km"], A("xa"), A("km")),
    ("kxa=km", ["km"], A("kxa"), A("km")),
    ("xa.xb:xc^2=N", ["N"], Dv(M(A("xa"), A("xb")), P(A("xc"), 2)), A("N")),
    ("xn=N", ["xn", "N"], A("xn"), A("N")),
    ("xn.xa=J", ["xn", "J"], M(A("xn"), A("xa")), A("J")),
    ("xa=rad", ["rad"], A("xa"), A("rad")),
    ("xz=rad", ["xz", "rad"], A("xz"), A("rad")),         # angle is a dimension of its own: never equal to a pure number
    ("xc^-1=Hz", ["Hz"], P(A("xc"), -1), A("Hz")),
]

TABLE_EQ = [
    # spellings of one table unit (concrete scales: ground obligations) and near misses
    ("J", "N*m", True), ("J", "kg*m**2/s**2", True), ("N*m", "kg*m**2/s**2", True), ("J", "W*s", True), ("J", "Pa*m**3", True),
    ("erg", "dyn*cm", True), ("erg", "g*cm**2/s**2", True), ("J", "1e7*erg", True), ("J", "erg", False), ("Pa", "N/m**2", True),
    ("W", "J/s", True), ("Hz", "1/s", True), ("Hz", "s**-1", True), ("km", "1000*m", True), ("km", "m", False), ("N", "kg*m/s**2", True),
    ("N", "1e5*dyn", True), ("m/m", "dimensionless", True), ("%", "dimensionless", False), ("100*%", "dimensionless", True),
    ("rad", "dimensionless", False), ("m/s", "km/ks", True), ("mm*km", "m**2", True), ("sqrt(m**2)", "m", True),
    ("(m**3)**(1/3)", "m", True), ("min", "60*s", True), ("inch", "2.54*cm", True), ("K", "degC", False), ("J", "N", False),
    ("kg*m**2/s**2", "kg*m**2/s**3", False), ("g", "kg", False),
]


def make_eq_case(name, extra, t1, t2):
    N = lcm(root_degree(t1), root_degree(t2))

    def h(ctx):
        reg, env, scale_of, dimvec_of = make_env(ctx, extra, N=N, wide=True)
        m1, m2 = mono_expand(t1), mono_expand(t2)
        u, v = build(t1, env, ctx.mods, reg), build(t2, env, ctx.mods, reg)
        s1, s2 = mono_scale(m1, scale_of), mono_scale(m2, scale_of)
        d1, d2 = mono_dimvec(m1, dimvec_of), mono_dimvec(m2, dimvec_of)
        ctx.require("eq: operands have the oracle's scale and dimension",
                    And(close(u.base_value, s1), close(v.base_value, s2), dimvec(u.dimensions) == d1, dimvec(v.dimensions) == d2))
        sandwich(ctx, "eq", u, v, s1, s2, 0.0, 0.0, d1 == d2)
        ctx.require("eq: reflexive", And(bool(u == u), bool(v == v), not (u != u)))
        ctx.require("eq: not equal to a non-unit", And(not (u == str(u)), not (u == 1.0), u != None))  # noqa: E711
    return Case(f"C05/eq/sym/{name}", h, group="eq")


# ----------------------------------------------------------------------------- alike-spelled operands: equality, simplify, cached rules

ALIKE_EQ = [
    # (id, lhs, rhs): equal exactly when the oracle scales agree - never because the expressions do
    ("xa=xA", A("xa"), A("xA")),
    ("kxa=kxA", A("kxa"), A("kxA")),
    ("kxa=xA", A("kxa"), A("xA")),
    ("xa:xA=one", Dv(A("xa"), A("xA")), A("dimensionless")),
    ("xA:xa=xa:xA", Dv(A("xA"), A("xa")), Dv(A("xa"), A("xA"))),
    ("xa.xA=xa^2", M(A("xa"), A("xA")), P(A("xa"), 2)),
    ("xa.xb=xA.xb", M(A("xa"), A("xb")), M(A("xA"), A("xb"))),
    ("xb.(xa:xA)=xb", M(A("xb"), Dv(A("xa"), A("xA"))), A("xb")),
    ("(xa:xA).xb=xb", M(Dv(A("xa"), A("xA")), A("xb")), A("xb")),
    ("xb:(xa:xA)=xb", Dv(A("xb"), Dv(A("xa"), A("xA"))), A("xb")),
    ("xa^1|2=xA^1|2", P(A("xa"), F(1, 2)), P(A("xA"), F(1, 2))),
    ("xa:xc=xA:xc", Dv(A("xa"), A("xc")), Dv(A("xA"), A("xc"))),
]


def make_alike_eq_case(kind, name, t1, t2):
    N = lcm(root_degree(t1), root_degree(t2))

    def h(ctx):
        reg, env, scale_of, dimvec_of, regs = make_alike_env(ctx, kind, N=N, wide=True)
        scale_of["dimensionless"], dimvec_of["dimensionless"] = 1.0, {}
        m1, m2 = mono_expand(t1), mono_expand(t2)
        u, v = build(t1, env, ctx.mods, reg), build(t2, env, ctx.mods, reg)
        s1, s2 = mono_scale(m1, scale_of), mono_scale(m2, scale_of)
        d1, d2 = mono_dimvec(m1, dimvec_of), mono_dimvec(m2, dimvec_of)
        ctx.require("alike eq: operands have the oracle's scale and dimension",
                    And(close(u.base_value, s1), close(v.base_value, s2), dimvec(u.dimensions) == d1, dimvec(v.dimensions) == d2))
        sandwich(ctx, "alike eq", u, v, s1, s2, 0.0, 0.0, d1 == d2)
        ctx.require("alike eq: reflexive", And(bool(u == u), bool(v == v), not (u != u)))
    return Case(f"C05/alike/{kind}/eq/{name}", h, group="alike")


ALIKE_FORMS = [
    # (u, v): simplify()/as_coeff_unit() of u*v and u/v, and the cached unit rules of unyt.array on (u, v). No pair of DIFFERENT names of one
    # dimension (xa next to kxa): simplify() would cancel it with the registry's current scales, and sympy cannot hold a solver term
    (A("xa"), A("xA")), (A("xA"), A("xa")), (A("xb"), Dv(A("xa"), A("xA"))), (Dv(A("xa"), A("xA")), A("xb")), (M(A("xa"), A("xb")), A("xA")),
    (P(A("xa"), 2), A("xA")), (Dv(A("xa"), A("xc")), Dv(A("xA"), A("xc"))), (Dv(A("xA"), A("xa")), Dv(A("xa"), A("xA"))), (A("kxA"), A("xb")),
    (P(Dv(A("xa"), A("xA")), F(1, 2)), A("xc")),
]


def make_alike_forms_case(kind, t1, t2, idx):
    N = lcm(root_degree(t1), root_degree(t2)) * 6

    def h(ctx):
        reg, env, scale_of, dimvec_of, regs = make_alike_env(ctx, kind, N=N)
        UA = ctx.mods["UA"]
        m1, m2 = mono_expand(t1), mono_expand(t2)
        u, v = build(t1, env, ctx.mods, reg), build(t2, env, ctx.mods, reg)
        for tag, w, m in (("u*v", u * v, m1 * m2), ("u/v", u / v, m1 / m2), ("v*u", v * u, m1 * m2)):
            want, wd = mono_scale(m, scale_of), mono_dimvec(m, dimvec_of)
            before = (w.expr, w.base_value)
            z = w.simplify()
            ctx.require(f"alike simplify {tag}: scale and dimension unchanged, equal to the unit before, a new object",
                        And(close(z.base_value, want), dimvec(z.dimensions) == wd, bool(z == w), z is not w, w.expr == before[0], close(w.base_value, want)))
            z2 = z.simplify()
            ctx.require(f"alike simplify {tag}: idempotent", And(z2.expr == z.expr, close(z2.base_value, want)))
            c, r = z.as_coeff_unit()
            ctx.require(f"alike as_coeff_unit {tag}: coeff * unit denotes the same scale and dimension",
                        And(close(c * r.base_value, want), dimvec(r.dimensions) == wd, numeric_coefficient(r.expr) == 1))
            c0, r0 = w.as_coeff_unit()
            ctx.require(f"alike as_coeff_unit {tag} (unsimplified): coeff * unit denotes the same scale", And(close(c0 * r0.base_value, want), dimvec(r0.dimensions) == wd))
        for name, rule, m in (("_multiply_units", UA._multiply_units, m1 * m2), ("_divide_units", UA._divide_units, m1 / m2)):
            want, wd = mono_scale(m, scale_of), mono_dimvec(m, dimvec_of)
            c, w = rule(u, v)
            ctx.require(f"alike {name}: coeff * unit is the product/quotient", And(close(c * w.base_value, want), dimvec(w.dimensions) == wd))
            c2, w2 = rule(u, v)   # warm lru_cache
            ctx.require(f"alike {name}: cached answer is the same", And(close(c2, c), w2.expr == w.expr, close(w2.base_value, w.base_value)))
            cr, wr = rule(v, u)   # the same spellings the other way round must not be answered from the first entry
            mr = m1 * m2 if name == "_multiply_units" else m2 / m1
            ctx.require(f"alike {name}: operands swapped", And(close(cr * wr.base_value, mono_scale(mr, scale_of)), dimvec(wr.dimensions) == mono_dimvec(mr, dimvec_of)))
            ctx.observe(name + " coeff", c)
        for name, rule, m in (("_sqrt_unit", UA._sqrt_unit, m1 ** F(1, 2)), ("_square_unit", UA._square_unit, m1 ** 2), ("_reciprocal_unit", UA._reciprocal_unit, m1 ** -1)):
            for tag, x, mx in (("u", u, m), ("v", v, {"_sqrt_unit": m2 ** F(1, 2), "_square_unit": m2 ** 2, "_reciprocal_unit": m2 ** -1}[name])):
                c, w = rule(x)
                ctx.require(f"alike {name}({tag}): scale and dimension", And(close(c * w.base_value, mono_scale(mx, scale_of)), dimvec(w.dimensions) == mono_dimvec(mx, dimvec_of)))
        for pw in (2, 0.5):
            for tag, x, mx in (("u", u, m1), ("v", v, m2)):
                c, w = UA._power_unit(x, pw)
                mp = mx ** Fraction(pw)
                ctx.require(f"alike _power_unit({tag}, {pw}): scale and dimension", And(close(c * w.base_value, mono_scale(mp, scale_of)), dimvec(w.dimensions) == mono_dimvec(mp, dimvec_of)))
    return Case(f"C05/alike/{kind}/forms/{idx:02d}/{tid(t1)},{tid(t2)}", h, group="alike")


def is_mixed(*terms):
    """does the term (tuple) hold xa next to its like-named partner"""
    names = set()
    for t in terms:
        names |= atoms_of(t)
    return bool(names & {"xa", "kxa"}) and bool(names & {"xA", "kxA"})


def alike_cases(quick):
    """the catalogue of the main family over the atoms xa, xA, kxA, xb, each case under a kind of like-named partner. quick: terms / atom
    pairs / atom triples that hold xa next to its partner run under every kind, the others under one kind in rotation; thorough:
    every depth <= 1 term, atom pair and atom triple under every kind, seeded deeper terms / pairs / triples under one kind in rotation"""
    out = []
    atoms, d1, d2, d3 = catalogue(ALIKE_ATOMS, 60 if quick else 400, 40 if quick else 400, seed=23)
    rot = itertools.cycle(ALIKE_KINDS)
    ps_main = [F(2), F(-1), F(1, 2), F(-1, 3), F(3, 2)]
    some_p = [F(2), F(-1, 2), F(2, 3)]

    def kinds_for(*terms):
        return ALIKE_KINDS if (not quick or is_mixed(*terms)) else [next(rot)]
    for t in atoms + d1:
        for k in kinds_for(t):
            out.append(make_term_case(t, ps_main if is_mixed(t) else some_p, alike=k))
    for t in d2 + d3:
        out.append(make_term_case(t, some_p, alike=next(rot)))
    rnd = random.Random(29)
    pool = atoms + d1 + d2
    seen = set()
    for a, b in itertools.product(atoms, atoms):
        seen.add((a, b))
        for k in kinds_for(a, b):
            out.append(make_pair_case(a, b, some_p, alike=k))
    while len(seen) < 16 + (40 if quick else 300):
        a, b = rnd.choice(pool), rnd.choice(pool)
        if (a, b) not in seen:
            seen.add((a, b))
            out.append(make_pair_case(a, b, rnd.sample(EXPONENTS[2:], 2), alike=next(rot)))
    seen = set()
    for tr in itertools.product(atoms, atoms, atoms):
        seen.add(tr)
        for k in (ALIKE_KINDS if not quick else [next(rot)]):
            out.append(make_triple_case(*tr, alike=k))
    while len(seen) < 64 + (30 if quick else 300):
        tr = (rnd.choice(pool), rnd.choice(pool), rnd.choice(pool))
        if tr not in seen:
            seen.add(tr)
            out.append(make_triple_case(*tr, alike=next(rot)))
    for k in ALIKE_KINDS:
        for name, t1, t2 in ALIKE_EQ:
            out.append(make_alike_eq_case(k, name, t1, t2))
        for i, (t1, t2) in enumerate(ALIKE_FORMS):
            out.append(make_alike_forms_case(k, t1, t2, i))
    return out


# operands whose EXPRESSION carries a number. An expression is symbols times (possibly) a numeric coefficient: 100*xa, 5*xb/2, 2.54*xb, or a
# bare number (40). The coefficient is part of the unit's scale as well, so it is one more place where the three representations can
# drift apart: any step that splits the coefficient off (as_coeff_unit), reads the unit off the symbols only, or treats 'expression is a
# number' / 'expression equals the other operand's' as 'nothing to do' goes wrong exactly on these operands. Atoms of this family:
# xa, xz (a dimensionless unit with its own symbolic scale, like percent), cxa = ca * xa, cxb = cb * xb, cn = a bare number as a unit.
# origin = how the coefficient got into the expression.
COEF_ORIGINS = ["string", "sympy", "quantity", "explicit", "simplify", "product"]
COEF_ATOMS = ["xa", "cxa", "cxb", "cn", "xz"]
COEF_VALUES = {   # origin -> (ca, cb, cn)
    "string": (F(100), F(5, 2), F(40)), "sympy": (F(100), F(5, 2), F(40)), "quantity": (F(100), F(5, 2), F(40)), "explicit": (F(100), F(5, 2), F(40)),
    "simplify": (F(1000), F(254, 100), F(1000)), "product": (F(100), F(5, 2), F(100)),
}


def make_coef_env(ctx, origin, N=1):
    """-> reg, env, scale_of, dimvec_of, atom definitions (oracle monomials of cxa, cxb, cn over the symbolic scales of xa, xb).
    origin:
      string    Unit('100*xa'), Unit('2.5*xb') (the parser turns 2.5 into 5/2), Unit('40')
      sympy     Unit(Integer(100) * xa.expr), Unit(Float(2.5) * xb.expr), Unit(Integer(40)): looked up through the expression
      quantity  Unit(100 * xa), Unit(2.5 * xb), Unit(40 * dimensionless): a unit made from a quantity (its value becomes the coefficient)
      explicit  the same expressions with base_value and dimensions handed over
      simplify  (kg/g * xa).simplify() = 1000*xa, (inch/cm * xb).simplify() = 2.54*xb, (km/m).simplify() = 1000: left behind by cancellation
      product   Unit('100') * xa, xb * Unit('2.5'), cxa / xa: a bare-number unit multiplied in / like symbols divided out"""
    import sympy
    reg, env, scale_of, dimvec_of = make_env(ctx, ["xz", "%"], N=N)
    Unit = ctx.mods["unyt"].Unit
    D = ctx.mods["unyt"].dimensions
    xa, xb = env["xa"], env["xb"]
    sa, sb = scale_of["xa"], scale_of["xb"]
    ca, cb, cc = COEF_VALUES[origin]
    if origin == "string":
        cxa, cxb, cn = Unit("100*xa", registry=reg), Unit("2.5*xb", registry=reg), Unit("40", registry=reg)
    elif origin == "sympy":
        cxa, cxb, cn = Unit(sympy.Integer(100) * xa.expr, registry=reg), Unit(sympy.Float(2.5) * xb.expr, registry=reg), Unit(sympy.Integer(40), registry=reg)
    elif origin == "quantity":
        cxa, cxb, cn = Unit(100 * xa, registry=reg), Unit(2.5 * xb, registry=reg), Unit(40 * Unit(registry=reg), registry=reg)
    elif origin == "explicit":
        cxa = Unit(sympy.Integer(100) * xa.expr, base_value=sa * 100.0, dimensions=D.length, registry=reg)
        cxb = Unit(sympy.Float(2.5) * xb.expr, base_value=sb * 2.5, dimensions=D.mass, registry=reg)
        cn = Unit(sympy.Integer(40), base_value=40.0, dimensions=D.dimensionless, registry=reg)
    elif origin == "simplify":
        cxa = (Unit("kg", registry=reg) / Unit("g", registry=reg) * xa).simplify()
        cxb = (Unit("inch", registry=reg) / Unit("cm", registry=reg) * xb).simplify()
        cn = (Unit("km", registry=reg) / Unit("m", registry=reg)).simplify()
    elif origin == "product":
        cxa, cxb = Unit("100", registry=reg) * xa, xb * Unit("2.5", registry=reg)
        cn = cxa / xa
    else:
        raise KeyError(origin)
    env["cxa"], env["cxb"], env["cn"] = cxa, cxb, cn
    defs = {"cxa": Mono(ca, {"xa": F(1)}), "cxb": Mono(cb, {"xb": F(1)}), "cn": Mono(cc, {})}
    return reg, env, scale_of, dimvec_of, defs


COEF_FORMS = [
    # (u, v): simplify()/as_coeff_unit() of u*v, u/v, v*u and of their fractional powers, and the cached unit rules of unyt.array on (u, v)
    (A("cxa"), A("cxb")), (A("cxb"), A("xa")), (A("xa"), A("cxa")), (A("cn"), A("cxa")), (A("cxb"), A("cn")), (P(A("cxa"), F(1, 2)), A("cxb")),
    (A("%"), A("cxa")), (A("cn"), A("%")), (P(A("cxb"), F(-1, 3)), P(A("cxa"), F(3, 2))), (A("cn"), A("cn")), (A("%"), A("%")),
]   # the dimensionless unit with a scale is the table's % here: simplify() folds it into the coefficient (concrete scales only, see OUTSIDE)


def make_coef_forms_case(origin, t1, t2, idx):
    N = lcm(root_degree(t1), root_degree(t2)) * 6

    def h(ctx):
        reg, env, scale_of, dimvec_of, defs = make_coef_env(ctx, origin, N=N)
        UA = ctx.mods["UA"]
        m1, m2 = mono_expand(t1, defs), mono_expand(t2, defs)
        u, v = build(t1, env, ctx.mods, reg), build(t2, env, ctx.mods, reg)
        look = _prefix_lookup(scale_of, dimvec_of)
        half, third = F(1, 2), F(-1, 3)
        for tag, w, m in (("u*v", u * v, m1 * m2), ("u/v", u / v, m1 / m2), ("v*u", v * u, m1 * m2), ("(u*v)**(1/2)", (u * v) ** half, (m1 * m2) ** half),
                          ("u**(-1/3)", u ** third, m1 ** third), ("v**(1/2)", v ** 0.5, m2 ** half)):
            want, wd = mono_scale(m, scale_of), mono_dimvec(m, dimvec_of)
            ctx.require(f"coef forms {tag}: scale and dimension of the unit", And(close(w.base_value, want), dimvec(w.dimensions) == wd))
            before = w.expr
            c0, r0 = w.as_coeff_unit()
            es, ed = eval_expr(r0.expr, scale_of, dimvec_of, lookup=look)
            ctx.require(f"coef forms as_coeff_unit {tag}: coeff * unit denotes the same scale and dimension (values and expression)",
                        And(close(c0 * r0.base_value, want), close(c0 * es, want), dimvec(r0.dimensions) == wd, ed == wd, numeric_coefficient(r0.expr) == 1, w.expr == before))
            # a numeric factor that is a radical (sqrt(10)) is a legitimate part of a unit expression: (1000*xa)**(1/2) is 10*sqrt(10)*sqrt(xa)
            irr = " (expression with a radical of a number)" if irrational_factor(w.expr) else ""
            r = call(w.simplify)
            ctx.require(f"coef forms simplify{irr} {tag}: returns a unit", r[0] == "ok", got=r[1], expr=str(w.expr))
            if r[0] != "ok":
                continue
            z = r[1]
            zs, zd = eval_expr(z.expr, scale_of, dimvec_of, lookup=look)
            ctx.require(f"coef forms simplify {tag}: scale and dimension unchanged (values and expression), equal to the unit before, a new object",
                        And(close(z.base_value, want), close(zs, want), dimvec(z.dimensions) == wd, zd == wd, bool(z == w), z is not w, w.expr == before, close(w.base_value, want)))
            z2 = z.simplify()
            ctx.require(f"coef forms simplify {tag}: idempotent", And(z2.expr == z.expr, close(z2.base_value, want)))
            c, rr = z.as_coeff_unit()
            ctx.require(f"coef forms as_coeff_unit of simplify {tag}: coeff * unit denotes the same scale and dimension",
                        And(close(c * rr.base_value, want), dimvec(rr.dimensions) == wd, numeric_coefficient(rr.expr) == 1))
        for name, rule, m, pe in (("_multiply_units", UA._multiply_units, m1 * m2, (u * v).expr), ("_divide_units", UA._divide_units, m1 / m2, (u / v).expr)):
            want, wd = mono_scale(m, scale_of), mono_dimvec(m, dimvec_of)
            irr = " (expression with a radical of a number)" if irrational_factor(pe) else ""
            r = call(rule, u, v)
            ctx.require(f"coef {name}{irr}: returns", r[0] == "ok", got=r[1], expr=str(pe))
            if r[0] != "ok":
                continue
            c, w = r[1]
            ctx.require(f"coef {name}: coeff * unit is the product/quotient", And(close(c * w.base_value, want), dimvec(w.dimensions) == wd))
            c2, w2 = rule(u, v)   # warm lru_cache
            ctx.require(f"coef {name}: cached answer is the same", And(close(c2, c), w2.expr == w.expr, close(w2.base_value, w.base_value)))
            rs = call(rule, v, u)
            ctx.require(f"coef {name}{irr}: returns with the operands swapped", rs[0] == "ok", got=rs[1], expr=str(pe))
            if rs[0] == "ok":
                cr, wr = rs[1]
                mr = m1 * m2 if name == "_multiply_units" else m2 / m1
                ctx.require(f"coef {name}: operands swapped", And(close(cr * wr.base_value, mono_scale(mr, scale_of)), dimvec(wr.dimensions) == mono_dimvec(mr, dimvec_of)))
            ctx.observe(name + " coeff", c)
        for name, rule, p in (("_sqrt_unit", UA._sqrt_unit, F(1, 2)), ("_cbrt_unit", UA._cbrt_unit, F(1, 3)), ("_square_unit", UA._square_unit, F(2)),
                              ("_reciprocal_unit", UA._reciprocal_unit, F(-1))):
            for tag, x, mx in (("u", u, m1), ("v", v, m2)):
                c, w = rule(x)
                ctx.require(f"coef {name}({tag}): scale and dimension", And(close(c * w.base_value, mono_scale(mx ** p, scale_of)), dimvec(w.dimensions) == mono_dimvec(mx ** p, dimvec_of)))
        for pw in (2, 0.5, -1.5):
            for tag, x, mx in (("u", u, m1), ("v", v, m2)):
                c, w = UA._power_unit(x, pw)
                mp = mx ** Fraction(pw)
                ctx.require(f"coef _power_unit({tag}, {pw}): scale and dimension", And(close(c * w.base_value, mono_scale(mp, scale_of)), dimvec(w.dimensions) == mono_dimvec(mp, dimvec_of)))
    return Case(f"C05/coef/{origin}/forms/{idx:02d}/{tid(t1)},{tid(t2)}", h, group="coef")


def has_coef_atom(*terms):
    names = set()
    for t in terms:
        names |= atoms_of(t)
    return bool(names & {"cxa", "cxb", "cn"})


def coef_cases(quick):
    """the catalogue of the main family over the atoms xa, cxa, cxb, cn, xz, each case under an origin of the coefficient. quick: every atom
    under every origin with all exponents, products / quotients of two atoms, power-of-power of the coefficient atoms, atom pairs, a seeded
    sample of atom triples and deeper terms under one origin in rotation; thorough: every depth <= 1 term and atom pair under every origin"""
    out = []
    atoms, d1, d2, d3 = catalogue(COEF_ATOMS, 30 if quick else 300, 20 if quick else 300, seed=31)
    rot = itertools.cycle(COEF_ORIGINS)
    ps_main = [F(2), F(-1), F(1, 2), F(-1, 3), F(3, 2)]
    some_p = [F(2), F(-1, 2), F(2, 3)]

    def origins_for(*terms, always=False):
        if not has_coef_atom(*terms):
            return [next(rot)]
        return COEF_ORIGINS if (always or not quick) else [next(rot)]
    for t in atoms:
        for o in origins_for(t, always=True):
            out.append(make_term_case(t, EXPONENTS, coef=o))
    for t in d1:
        if quick and t[0] == "pow":
            continue     # quick: powers of atoms are walked by the atom cases (u**p) and the power-of-power cases
        for o in origins_for(t):
            out.append(make_term_case(t, ps_main, coef=o))
    for t in d2 + d3:
        out.append(make_term_case(t, some_p, coef=next(rot)))
    for a in ("cxa", "cxb", "cn"):
        for p in EXPONENTS:
            for o in origins_for(A(a)):
                out.append(make_powpow_case(A(a), p, coef=o))
    rnd = random.Random(37)
    pool = atoms + d1 + d2
    seen = set()
    for a, b in itertools.product(atoms, atoms):
        seen.add((a, b))
        for o in origins_for(a, b):
            out.append(make_pair_case(a, b, some_p, coef=o))
    while len(seen) < 25 + (15 if quick else 200):
        a, b = rnd.choice(pool), rnd.choice(pool)
        if (a, b) not in seen:
            seen.add((a, b))
            out.append(make_pair_case(a, b, rnd.sample(EXPONENTS[2:], 2), coef=next(rot)))
    triples = list(itertools.product(atoms, atoms, atoms))
    if quick:
        triples = rnd.sample(triples, 40)
    for tr in triples:
        out.append(make_triple_case(*tr, coef=next(rot)))
    seen = set(triples)
    while len(seen) < len(triples) + (10 if quick else 200):
        tr = (rnd.choice(pool), rnd.choice(pool), rnd.choice(pool))
        if tr not in seen:
            seen.add(tr)
            out.append(make_triple_case(*tr, coef=next(rot)))
    for i, (t1, t2) in enumerate(COEF_FORMS):
        for o in (COEF_ORIGINS if (not quick or i < 6) else [next(rot)]):
            out.append(make_coef_forms_case(o, t1, t2, i))
    return out


# ----------------------------------------------------------------------------- equality is compatible with the algebra

LAW_PAIRS = [
    # (id, extra atoms, u, v): two units of one dimension with independent scales (and two controls)
    ("xa,xd", ["xd"], A("xa"), A("xd")),
    ("kxa,xd", ["xd"], A("kxa"), A("xd")),
    ("xq,xn", ["xq", "xn"], A("xq"), A("xn")),
    ("xq,xb.xa:xc^2", ["xq"], A("xq"), Dv(M(A("xb"), A("xa")), P(A("xc"), 2))),
    ("xa^2,xd^2", ["xd"], P(A("xa"), 2), P(A("xd"), 2)),
    ("xa^1|2,xd^1|2", ["xd"], P(A("xa"), F(1, 2)), P(A("xd"), F(1, 2))),
    ("xa:xc,xd:xc", ["xd"], Dv(A("xa"), A("xc")), Dv(A("xd"), A("xc"))),
    ("xz,one", ["xz", "dimensionless"], A("xz"), A("dimensionless")),
    ("xz.xa,xd", ["xz", "xd"], M(A("xz"), A("xa")), A("xd")),
    ("xa,km", ["km"], A("xa"), A("km")),                  # one side a table unit
    ("xa,xb", [], A("xa"), A("xb")),                      # control: different dimensions
    ("xa,xa^2", [], A("xa"), P(A("xa"), 2)),              # control: different dimensions, dependent scales
]

LAW_MAIN = ("xa,xd", "kxa,xd", "xq,xn", "xz,one")               # every probe
LAW_ATOMS = ("xa,xd", "kxa,xd", "xz,one", "xa,km", "xa,xb")       # odd and fractional powers (they fork inside the edge zone: cubic terms)

# one probe = one case (every probe is one more Unit.__eq__, i.e. one more fork of the path): (id, label, factor, exponent, kind)
# factors: symbolic bystanders of another dimension (any positive scale), and table units from the far ends of the table
# (t_pl 5.4e-44 s, me 9.1e-31 kg, Msun 2.0e30 kg, bethe 1e44 J: the obligations stay linear in the two scales under test)
LAW_PROBES = [
    ("xb.u", "u*w == v*w", "xb", 1, "mul"), ("u.xb", "w*u == w*v", "xb", 1, "rmul"), ("u:xb", "u/w == v/w", "xb", 1, "div"), ("xb:u", "w/u == w/v", "xb", 1, "rdiv"),
    ("u.xc^-2", "u*w == v*w", "xc", -2, "mul"), ("u:xc^-2", "u/w == v/w", "xc", -2, "div"),
    ("u.xz", "u*w == v*w", "xz", 1, "mul"), ("u:xz", "u/w == v/w", "xz", 1, "div"),
    ("u.me", "u*w == v*w", "me", 1, "mul"), ("u:me", "u/w == v/w", "me", 1, "div"),
    ("u.Msun", "u*w == v*w", "Msun", 1, "mul"), ("u:Msun", "u/w == v/w", "Msun", 1, "div"),
    ("u.t_pl", "u*w == v*w", "t_pl", 1, "mul"), ("t_pl:u", "w/u == w/v", "t_pl", 1, "rdiv"),
    ("u.bethe", "u*w == v*w", "bethe", 1, "mul"), ("bethe:u", "w/u == w/v", "bethe", 1, "rdiv"),
    ("u:v=1", "u/v == 1", None, 1, "q1"), ("v:u=1", "v/u == 1", None, 1, "q2"), ("u.v^-1=1", "u*v**-1 == 1", None, 1, "q3"), ("(u:v).v=v", "(u/v)*v == v", None, 1, "q4"),
    ("u^-1", "u**-1 == v**-1", None, -1, "pow"), ("1:u", "1/u == 1/v", None, 1, "inv2"),
    ("u^2", "u**2 == v**2", None, 2, "pow"), ("u.u", "u*u == v*v", None, 1, "sq"), ("u.v", "u*v == v*v", None, 1, "uv"),
    ("u^1|2", "u**(1/2) == v**(1/2)", None, F(1, 2), "pow"), ("u^-1|3", "u**(-1/3) == v**(-1/3)", None, F(-1, 3), "pow"),
    ("u^3", "u**3 == v**3", None, 3, "pow"), ("u^-2", "u**-2 == v**-2", None, -2, "pow"), ("u^3|2", "u**(3/2) == v**(3/2)", None, F(3, 2), "pow"),
]
LAW_REDUCED = ("xb.u", "u.me", "u:Msun", "bethe:u", "u:v=1", "u^-1", "u^2")
LAW_ODD = ("u^1|2", "u^-1|3", "u^3", "u^-2", "u^3|2")


def law_cases(quick):
    out = []
    for name, extra, t1, t2 in LAW_PAIRS:
        for probe in LAW_PROBES:
            if probe[0] in LAW_ODD:
                if name not in LAW_ATOMS:
                    continue
            elif quick and name not in LAW_MAIN and probe[0] not in LAW_REDUCED:
                continue
            if (name, probe[0]) == ("kxa,xd", "u^3|2"):
                continue     # 1000**1.5 is a rounded coefficient next to cubic terms: z3 needs most of a minute on a tree where the law fails
            out.append(make_eq_law_case(name, extra, t1, t2, probe))
    return out


def make_eq_law_case(name, extra, t1, t2, probe):
    """u == v is a statement about the unit, so it must agree with every way the algebra can restate it: attaching one and the same
    factor w on both sides (for EVERY positive scale of w, and for table units from both ends of the table: the verdict may depend
    on the ratio of the two scales only, never on how small or large they are), dividing one by the other and comparing with the
    identity, inverting or raising both to one power. The restated comparison is made by the real Unit.__eq__ and must give the
    verdict of u == v, unless the two scales lie in the edge zone of the library's own band (a relative 1e-11 .. 1e-7 apart), where
    rounding and |p| <= 3 may legitimately tip it."""
    pid, label, wname, p, kind = probe
    N = lcm(lcm(root_degree(t1), root_degree(t2)), F(p).denominator)
    if wname is not None and wname not in ("xa", "xb", "xc") and wname not in extra:
        extra = list(extra) + [wname]

    def h(ctx):
        reg, env, scale_of, dimvec_of = make_env(ctx, extra, N=N, wide=True)
        Unit = ctx.mods["unyt"].Unit
        m1, m2 = mono_expand(t1), mono_expand(t2)
        u, v = build(t1, env, ctx.mods, reg), build(t2, env, ctx.mods, reg)
        s1, s2 = mono_scale(m1, scale_of), mono_scale(m2, scale_of)
        d1, d2 = mono_dimvec(m1, dimvec_of), mono_dimvec(m2, dimvec_of)
        one = Unit(registry=reg)
        eq = bool(u == v)
        edge = rel_gap_between(s1, s2, 1e-11, 1e-7) if d1 == d2 else False
        e = exponent_value(p, "frac")
        if wname is not None:
            w = env[wname] ** e if p != 1 else env[wname]
            ws = fpow(scale_of[wname], p)
            lhs, rhs = {"mul": (u * w, v * w), "rmul": (w * u, w * v), "div": (u / w, v / w), "rdiv": (w / u, w / v)}[kind]
            ls = {"mul": s1 * ws, "rmul": ws * s1, "div": s1 / ws, "rdiv": ws / s1}[kind]
            ctx.require(f"eq law {label}: the left side has the oracle's scale", close(lhs.base_value, ls))
        elif kind == "pow":
            lhs, rhs = u ** e, v ** e
        elif kind == "q1":
            lhs, rhs = u / v, one
        elif kind == "q2":
            lhs, rhs = v / u, one
        elif kind == "q3":
            lhs, rhs = u * v ** -1, one
        elif kind == "q4":
            lhs, rhs = (u / v) * v, v
        elif kind == "inv2":
            lhs, rhs = one / u, one / v
        elif kind == "sq":
            lhs, rhs = u * u, v * v
        elif kind == "uv":
            lhs, rhs = u * v, v * v
        verdict = bool(lhs == rhs)
        ctx.require(f"eq law {label}: the same verdict as u == v (outside the edge zone of the band)", Or(verdict is eq, edge), u_eq_v=eq, restated=verdict)
        ctx.require(f"eq law {label}: != is the negation", (lhs != rhs) is (not verdict))
        ctx.observe(label, verdict)
        ctx.observe("eq", eq)
    return Case(f"C05/eq/law/{name}/{pid}", h, group="eq")


def make_eq_offset_case(kind):
    """two offset units of one dimension: every combination of symbolic scale / offset"""
    def h(ctx):
        D = ctx.mods["unyt"].dimensions
        Unit = ctx.mods["unyt"].Unit
        reg = ctx.registry([])
        dims = {"temperature": D.temperature, "angle": D.angle}[kind]
        s1, s2 = ctx.real("st", pos=True), ctx.real("su", pos=True)
        o1, o2 = ctx.real("ot"), ctx.real("ou")
        ctx.add_row(reg, "xt", dims, s1, o1)
        ctx.add_row(reg, "xu", dims, s2, o2)
        u, v = Unit("xt", registry=reg), Unit("xu", registry=reg)
        sandwich(ctx, "eq offset", u, v, s1, s2, o1, o2, True)
        one = Unit(registry=reg)
        w = call(lambda: u * one)
        if w[0] == "ok":
            sandwich(ctx, "eq offset u*1", w[1], u, w[1].base_value, s1, w[1].base_offset, o1, True)
    return Case(f"C05/eq/offset/{kind}", h, group="eq")


def table_row(name):
    """(scale, offset, dimension vector) of a table symbol or prefixed table symbol: the harness' reading of unyt's table"""
    from unyt._unit_lookup_table import default_unit_symbol_lut as lut
    s, dv = table_unit(name)
    return s, (float(lut[name][2] or 0.0) if name in lut else 0.0), dv


def oracle_verdict(ra, rb):
    """equal / not equal / None (too close to the edge of the band to call) from two table rows"""
    (sa, oa, da), (sb, ob, db) = ra, rb
    if da != db:
        return False
    gs = abs(sa - sb) / max(abs(sa), abs(sb))
    go = 0.0 if oa == ob else abs(oa - ob) / max(abs(oa), abs(ob))
    if gs > 1e-8 or go > 1e-8:
        return False
    if gs < 1e-10 and go < 1e-10:
        return True
    return None


def make_table_eq_case(a, b, want, family="table"):
    def h(ctx):
        Unit = ctx.mods["unyt"].Unit
        reg = ctx.registry([])
        x = ctx.real("sx", pos=True)     # a symbolic bystander: the same verdict with xc**k attached to both sides, for all its scales
        ctx.add_row(reg, "xc", ctx.mods["unyt"].dimensions.time, x, 0.0)
        u, v = Unit(a, registry=reg), Unit(b, registry=reg)
        eq = bool(u == v)
        if want is not None:
            ctx.require(f"table eq: verdict", eq is want)
        ctx.require("table eq: symmetric, != is the negation", And(bool(v == u) is eq, (u != v) is (not eq), (v != u) is (not eq)))
        # the harness' own reading of the two expressions (table scales, prefix table, exponent arithmetic)
        look = _prefix_lookup({}, {})
        ra = call(lambda: (eval_expr(u.expr, {}, {}, lookup=look), eval_expr(v.expr, {}, {}, lookup=look)))
        known = ra[0] == "ok"
        if known:
            (sa, da), (sb, db) = ra[1]
            ctx.require("table eq: operands have the scale and dimension the harness reads from the expression",
                        And(close(u.base_value, sa), close(v.base_value, sb), dimvec(u.dimensions) == da, dimvec(v.dimensions) == db))
        # compatible with the algebra: the quotient is the identity, the inverses are equal, exactly when u == v
        one = Unit(registry=reg)
        r = call(lambda: (u / v, v / u, u * v ** -1, u ** -1, v ** -1))
        if r[0] == "ok":
            uv, vu, uvi, ui, vi = r[1]
            got = [bool(uv == one), bool(vu == one), bool(uvi == one), bool(ui == vi), bool(one / u == one / v)]
            ctx.require("table eq: u/v == 1, v/u == 1, u*v**-1 == 1, u**-1 == v**-1, 1/u == 1/v all give the verdict of u == v",
                        got == [eq] * 5, u_eq_v=eq, got=got)
            if known:
                ctx.require("table eq: u/v has the quotient of the scales", close(uv.base_value, sa / sb))
        # a consumer that trusts ==: the sum of two quantities (symbolic readings) is the sum of their SI magnitudes
        if known and da == db and not u.base_offset and not v.base_offset and da != {LOG_: F(1)}:
            xs, ys = ctx.real("x"), ctx.real("y")
            q = call(lambda: ctx.quantity(xs, u) + ctx.quantity(ys, v))
            ctx.require("table eq: x*u + y*v is defined for two units of one dimension", q[0] == "ok", got=q[1])
            if q[0] == "ok":
                si = payload(q[1])[0] * q[1].units.base_value
                ctx.require("table eq: x*u + y*v is the sum of the SI magnitudes (for all readings x, y)",
                            plain_close(si, xs * sa + ys * sb, extra=band(xs * sa, ys * sb)))
        ctx.require("table eq: verdict follows scale/offset/dimension, not the spelling",
                    eq == (close(u.base_value, v.base_value, tol=Fraction(1, 10**9)) and close(u.base_offset, v.base_offset, tol=Fraction(1, 10**9)) and dimvec(u.dimensions) == dimvec(v.dimensions)))
        xc = Unit("xc", registry=reg)
        for k in (1, -2, Fraction(1, 2)):
            r = call(lambda: (u * xc ** k, v * xc ** k))
            if r[0] == "ok":
                uu, vv = r[1]
                ctx.require(f"table eq: same verdict with xc**{fstr(k)} attached", And(bool(uu == vv) is eq, close(uu.base_value, u.base_value * x ** k)))
        ctx.observe("eq", eq)
    return Case(f"C05/eq/{family}/" + f"{a}={b}".replace("/", ":"), h, group="eq")


# pairs of table units picked by MAGNITUDE: the 31 hand-written pairs above are all of ordinary size, the table is not
MAG_BASES = {"quick": ["m", "eV", "g"], "thorough": ["m", "eV", "g", "s", "Hz", "pc", "Pa", "K"]}
MAG_LADDER = ["y", "z", "a", "f", "p", "n", "T", "P", "E", "Z", "Y"]
MAG_HAND = [
    # compound spellings at both ends of the table; equal pairs and near misses (a relative 1e-6 apart) at extreme magnitudes
    ("Å**2", "fm**2", False), ("pm*fm", "fm**2", False), ("pm*fm", "1e3*fm**2", True), ("eV/s", "keV/s", False), ("1/Ym", "1/Zm", False),
    ("eV**2", "keV**2", False), ("sqrt(eV)", "sqrt(keV)", False), ("amu*fm", "me*fm", False), ("me*fm**2/fs**2", "amu*fm**2/fs**2", False),
    ("fm", "1e-3*pm", True), ("keV", "1000*eV", True), ("MeV", "1e6*eV", True), ("eV", "1.000001*eV", False), ("me", "1.000001*me", False),
    ("t_pl", "1.000001*t_pl", False), ("Msun", "1.000001*Msun", False), ("bethe", "1.000001*foe", False), ("Ypc", "1000*Zpc", True),
    ("Msun/me", "1e3*Msun/me", False), ("me/Msun", "1e3*me/Msun", False), ("l_pl*t_pl", "2*l_pl*t_pl", False), ("bethe*Msun", "2*bethe*Msun", False),
    ("l_pl**3", "fm**3", False), ("pc**3", "ly**3", False), ("1/l_pl", "1/fm", False), ("eV", "1.00000000000001*eV", True),
]


def magnitude_pairs(tier):
    """same-dimension pairs of table symbols chosen by the size of their SI scale. quick: within every dimension all pairs of symbols
    below 1e-9, all pairs above 1e9, smallest vs largest, the two smallest, the two largest; thorough: every same-dimension pair.
    Plus neighbouring SI prefixes from y to Y on a few prefixable bases, plus the hand-written compound pairs.
    The expected verdict comes from the table rows (relative gap of scale and offset), None inside the edge zone of the band."""
    from unyt._unit_lookup_table import default_unit_symbol_lut as lut
    groups = {}
    for n in sorted(lut):
        s, o, dv = table_row(n)
        groups.setdefault(tuple(sorted(dv.items())), []).append((abs(s), n))
    pairs = []
    for key in sorted(groups):
        g = sorted(groups[key])
        names = [n for _, n in g]
        if len(names) < 2:
            continue
        if tier == "quick":
            tiny, huge = [n for x, n in g if x <= 1e-9], [n for x, n in g if x >= 1e9]
            sel = set(itertools.combinations(tiny, 2)) | set(itertools.combinations(huge, 2))
            sel |= {(names[0], names[-1]), (names[0], names[1]), (names[-2], names[-1])}
            sel = {(a, b) for a, b in sel if a != b}
        else:
            sel = set(itertools.combinations(names, 2))
        pairs += sorted(sel)
    for base in MAG_BASES[tier]:
        for p1, p2 in list(zip(MAG_LADDER, MAG_LADDER[1:])) + [("y", "Y")]:
            pairs.append((p1 + base, p2 + base))
    out, seen = [], set()
    for a, b in pairs:
        if (a, b) in seen or (b, a) in seen:
            continue
        seen.add((a, b))
        out.append((a, b, oracle_verdict(table_row(a), table_row(b))))
    return out + MAG_HAND


# ----------------------------------------------------------------------------- hash

def make_hash_case(s):
    def h(ctx):
        reg, env, scale_of, dimvec_of = make_env(ctx)
        Unit = ctx.mods["unyt"].Unit
        u1 = Unit(s, registry=reg)
        h1 = hash(u1)
        reg._unit_object_cache.clear()
        u2 = Unit(s, registry=reg)
        ctx.require("hash: parsed twice (cold unit-object cache) => identical expression, equal hash, equal unit",
                    And(u1 is not u2, u1.expr == u2.expr, h1 == hash(u2), bool(u1 == u2), close(u1.base_value, u2.base_value)))
        u3 = Unit(s, registry=reg)
        ctx.require("hash: warm cache returns an equal unit of equal hash", And(hash(u3) == h1, bool(u3 == u1)))
        u4 = Unit(u1.expr, registry=reg)
        ctx.require("hash: rebuilt from the expression => equal hash, equal scale", And(hash(u4) == h1, close(u4.base_value, u1.base_value), bool(u4 == u1)))
        u5 = Unit(u1, registry=reg)
        ctx.require("hash: Unit(u) is an equal unit of equal hash", And(hash(u5) == h1, bool(u5 == u1)))
        ctx.require("hash: stable over the object's life", hash(u1) == h1)
        ctx.observe("scale", u1.base_value)
    return Case(f"C05/hash/{s.replace('/', ':')}", h, group="hash")


HASH_STRINGS = ["xa", "kxa", "xa*xb", "xb*xa", "xa**2/xc", "xa**(1/2)*xb**(-3/2)", "kxa/xa", "sqrt(xa*xb)/xc", "xa*m", "J/xc", "1/xc", "xa**0.5"]


# ----------------------------------------------------------------------------- hash across a registry history

HIST_EXPRS = ["xa", "kxa", "xa*xb", "xa**2/xc", "sqrt(xa*xb)/xc", "xa*m", "J/xc", "1/xb"]
HISTORIES = [("add",), ("modify",), ("remove",), ("add", "modify", "remove"), ("modify", "modify", "add"), ("remove", "add", "modify")]


def make_hashhist_case(s, history):
    """Hash consistency over the life of a registry: the registry is edited through its real add/modify/remove (always a symbol that
    does not occur in the expression, new values symbolic), and at every point of the history every unit that denotes the expression
    - objects built before any edit, objects built at earlier points, objects built now by string (warm and cold unit-object cache),
    from the sympy expression, as Unit(u), u**1, u*1, u/1, 1*u, (u*xa)/xa (and u.copy() at the initial point) - must be equal, carry the identical expression and
    the SAME hash when asked now, collapse to one element in a set and find each other in a dict. Hashes, set sizes and dict hits are
    concrete values: ground checks; the solver's share is the equality of the scales."""
    def h(ctx):
        reg, env, scale_of, dimvec_of = make_env(ctx, ["xd"], N=2)
        Unit = ctx.mods["unyt"].Unit
        D = ctx.mods["unyt"].dimensions
        one = Unit(registry=reg)

        def builds(tag):
            a = Unit(s, registry=reg)                      # warm cache: may be the very first object
            out = [(f"{tag} string", a)]
            reg._unit_object_cache.pop(s, None)
            out.append((f"{tag} string, cold cache", Unit(s, registry=reg)))
            out.append((f"{tag} from expr", Unit(a.expr, registry=reg)))
            out.append((f"{tag} Unit(u)", Unit(a, registry=reg)))
            out.append((f"{tag} u**1", a ** 1))
            out.append((f"{tag} u*1", a * one))
            out.append((f"{tag} 1*u", one * a))
            out.append((f"{tag} u/1", a / one))
            xa = Unit("xa", registry=reg)
            out.append((f"{tag} (u*xa)/xa", (a * xa) / xa))
            if tag == "initial":
                # Unit.copy() binds the copy to a shallow copy of the registry that shares the table and the unit-object cache but keeps
                # its own, never invalidated, system id, and later copy() calls get that first copy back from the shared cache (the known
                # C12/C13 findings): a copy is compared at the initial point only
                out.append((f"{tag} copy", a.copy()))
            return out

        def check(point, units):
            ref_l, ref = units[0]
            hs = [hash(u) for _, u in units]
            bad_hash = [l for (l, u), hh in zip(units, hs) if hh != hs[0]]
            ctx.require(f"hash history ({point}): every unit denoting the expression has the same hash now", not bad_hash, differ_from=ref_l, differing=bad_hash)
            ctx.require(f"hash history ({point}): identical expressions", all(u.expr == ref.expr for _, u in units))
            ctx.require(f"hash history ({point}): all equal (scale for all scales, offset, dimension)",
                        And(*[And(bool(u == ref), bool(ref == u), close(u.base_value, ref.base_value)) for _, u in units]))
            ctx.require(f"hash history ({point}): a set keeps one element", len({u for _, u in units}) == 1, size=len({u for _, u in units}))
            d = {ref: "found"}
            ctx.require(f"hash history ({point}): dict lookups with equal units hit", all(d.get(u) == "found" for _, u in units),
                        missed=[l for l, u in units if d.get(u) != "found"])
            ctx.require(f"hash history ({point}): hash is stable between two calls", [hash(u) for _, u in units] == hs)
            ctx.observe(f"{point}: distinct hashes", len(set(hs)))

        alive = builds("initial")
        check("initial", alive)
        n_add = 0
        for i, edit in enumerate(history):
            point = f"after {'+'.join(history[:i + 1])}"
            if edit == "add":
                n_add += 1
                reg.add(f"xq{'' if n_add == 1 else n_add}", positive_scale(ctx, f"tq{n_add}", 2), D.force)
            elif edit == "modify":
                reg.modify("xn" if "xn" in reg.lut else "xd", positive_scale(ctx, f"tm{i}", 2)) if "xd" in reg.lut else reg.modify("xq", positive_scale(ctx, f"tm{i}", 2))
            elif edit == "remove":
                reg.remove("xd") if "xd" in reg.lut else reg.remove("xq")
            alive = [(l, u) for l, u in alive if not l.endswith(" copy")] + builds(point)
            check(point, alive)
    name = s.replace("/", ":").replace("*", ".")
    return Case(f"C05/hashhist/{'+'.join(history)}/{name}", h, group="hash")


# ----------------------------------------------------------------------------- simplify / as_coeff_unit / cached unit rules

TAB_ATOMS = ["m", "cm", "km", "g", "kg", "s", "ms", "J", "erg", "N", "dyn", "inch", "min"]


def make_simp_case(t, idx):
    names = sorted({a for a in _atoms(t)})
    N = root_degree(t)

    def h(ctx):
        reg, env, scale_of, dimvec_of = make_env(ctx, [n for n in names if n not in ("xa", "xb", "xc", "kxa")], N=N)
        Unit = ctx.mods["unyt"].Unit
        m = mono_expand(t)
        want = mono_scale(m, scale_of)
        wd = mono_dimvec(m, dimvec_of)
        u0 = build(t, env, ctx.mods, reg)
        before = (u0.expr, u0.base_value)
        v = build(S(t), env, ctx.mods, reg)
        look = _prefix_lookup(scale_of, dimvec_of)
        ctx.require("simplify: scale unchanged", And(close(v.base_value, want), close(u0.base_value, want)))
        es, ed = eval_expr(v.expr, scale_of, dimvec_of, lookup=look)
        ctx.require("simplify: the new expression denotes the same scale", close(es, want))
        ctx.require("simplify: the new expression denotes the same dimension", And(ed == wd, dimvec(v.dimensions) == wd))
        ctx.require("simplify: equal to the unit before", bool(v == u0))
        v0 = u0.simplify()
        ctx.require("simplify: a new object, the unit it was called on keeps its expression and scale",
                    And(v0 is not u0, v0.expr == v.expr, u0.expr == before[0], close(u0.base_value, want)))
        ctx.require("simplify: offset", exact_eq(v.base_offset, 0.0))
        e1 = v.expr
        v2 = v.simplify()
        ctx.require("simplify: idempotent", And(v2.expr == e1, close(v2.base_value, want)))
        c, w = v.as_coeff_unit()
        ews, ewd = eval_expr(w.expr, scale_of, dimvec_of, lookup=look)
        ctx.require("as_coeff_unit: coeff * unit denotes the same scale", And(close(c * w.base_value, want), close(c * ews, want)))
        ctx.require("as_coeff_unit: unit part has no numeric coefficient, same dimension, same registry",
                    And(numeric_coefficient(w.expr) == 1, ewd == wd, dimvec(w.dimensions) == wd, w.registry is reg))
        ctx.require("as_coeff_unit: coefficient is the expression's numeric factor", close(c, float(numeric_coefficient(v.expr))))
        ctx.require("as_coeff_unit: leaves the unit untouched", And(v.expr == e1, close(v.base_value, want)))
        c0, w0 = u0.as_coeff_unit()
        ctx.require("as_coeff_unit (unsimplified): coeff * unit denotes the same scale", And(close(c0 * w0.base_value, want), dimvec(w0.dimensions) == wd))
        # the simplified unit as an OPERAND (its expression may now be a bare number, or a number times symbols): scale and dimension
        # of products, quotients and powers with it on either side are those of the unit before
        b, sb, bd = env["xb"], scale_of["xb"], {M_: F(1)}

        def vec(a, c, sign):
            o = dict(a)
            for k, e in c.items():
                o[k] = o.get(k, F(0)) + sign * e
            return {k: e for k, e in o.items() if e != 0}
        for tag, w, ws, wv in (("b*v", b * v, sb * want, vec(bd, wd, 1)), ("v*b", v * b, want * sb, vec(wd, bd, 1)), ("b/v", b / v, sb / want, vec(bd, wd, -1)),
                               ("v/b", v / b, want / sb, vec(wd, bd, -1)), ("v*v", v * v, want * want, vec(wd, wd, 1)), ("v**-1", v ** -1, 1 / want, vec({}, wd, -1)),
                               ("v0*v", v0 * v2, want * want, vec(wd, wd, 1))):
            ctx.require(f"simplified unit as operand {tag}: scale and dimension", And(close(w.base_value, ws), dimvec(w.dimensions) == wv))
        ctx.observe("simplified", str(v))
        ctx.observe("coeff", c)
        ctx.observe("scale", v.base_value)
    return Case(f"C05/simp/{idx:03d}/{tid(t)}", h, group="simp")


def cancels_symbolically(names):
    """would simplify() meet a cancelling pair with a symbolic scale (not executable: sympy cannot hold the solver term)"""
    sym = {"xa": {L_: F(1)}, "kxa": {L_: F(1)}, "xb": {M_: F(1)}, "xc": {T_: F(1)}}
    have = [sym[n] for n in names if n in sym]
    if "xa" in names and "kxa" in names:
        return True
    for n in names:
        if n not in sym and any(table_unit(n)[1] == d for d in have):
            return True
    return False


def _atoms(t):
    from .unitterms_common import atoms_of
    return atoms_of(t)


def make_rule_case(t1, t2, idx):
    names = sorted(_atoms(t1) | _atoms(t2))
    N = lcm(root_degree(t1), root_degree(t2)) * 6

    def h(ctx):
        reg, env, scale_of, dimvec_of = make_env(ctx, [n for n in names if n not in ("xa", "xb", "xc", "kxa")], N=N)
        UA = ctx.mods["UA"]
        m1, m2 = mono_expand(t1), mono_expand(t2)
        u, v = build(t1, env, ctx.mods, reg), build(t2, env, ctx.mods, reg)
        look = _prefix_lookup(scale_of, dimvec_of)
        for name, rule, m in (("_multiply_units", UA._multiply_units, m1 * m2), ("_divide_units", UA._divide_units, m1 / m2)):
            want = mono_scale(m, scale_of)
            wd = mono_dimvec(m, dimvec_of)
            c, w = rule(u, v)
            es, ed = eval_expr(w.expr, scale_of, dimvec_of, lookup=look)
            ctx.require(f"{name}: coeff * unit is the product/quotient", And(close(c * w.base_value, want), close(c * es, want), ed == wd, dimvec(w.dimensions) == wd))
            c2, w2 = rule(u, v)   # warm lru_cache
            ctx.require(f"{name}: cached answer is the same", And(close(c2, c), w2.expr == w.expr, close(w2.base_value, w.base_value)))
            u_again = build(t1, env, ctx.mods, reg)
            c3, w3 = rule(u_again, v)   # an equal key that is another object
            ctx.require(f"{name}: answer for an equal key object is the same", And(close(c3, c), w3.expr == w.expr, close(w3.base_value, w.base_value)))
            ctx.observe(name + " coeff", c)
            ctx.observe(name + " unit", str(w))
        for name, rule, m in (("_sqrt_unit", UA._sqrt_unit, m1 ** F(1, 2)), ("_cbrt_unit", UA._cbrt_unit, m1 ** F(1, 3)),
                              ("_square_unit", UA._square_unit, m1 ** 2), ("_reciprocal_unit", UA._reciprocal_unit, m1 ** -1)):
            c, w = rule(u)
            ctx.require(f"{name}: scale and dimension", And(close(c * w.base_value, mono_scale(m, scale_of)), dimvec(w.dimensions) == mono_dimvec(m, dimvec_of)))
        for p in (2, 0.5, -1.5):
            c, w = UA._power_unit(u, p)
            mp = m1 ** Fraction(p)
            ctx.require(f"_power_unit {p}: scale and dimension", And(close(c * w.base_value, mono_scale(mp, scale_of)), dimvec(w.dimensions) == mono_dimvec(mp, dimvec_of)))
    return Case(f"C05/rule/{idx:03d}/{tid(t1)},{tid(t2)}", h, group="rule")


def sym_bystander(table_name):
    """a symbolic atom whose dimension differs from the table unit's, so that it never cancels against it"""
    d = table_unit(table_name)[1]
    for n, dv in (("xc", {T_: F(1)}), ("xa", {L_: F(1)}), ("xb", {M_: F(1)})):
        if dv != d:
            return n


def simp_terms(n, seed=11):
    """terms over table atoms (cancelling pairs: concrete scales) and the symbolic xc (time never cancels against them... except s, ms, minute:
    those are kept out of terms containing xc)"""
    rnd = random.Random(seed)
    hand = [
        Dv(P(A("m"), 2), A("cm")), Dv(A("km"), A("m")), Dv(A("J"), A("erg")), Dv(M(A("N"), A("m")), A("J")), Dv(M(M(A("g"), P(A("cm"), 2)), P(A("s"), -2)), A("erg")),
        Dv(P(A("m"), F(3, 2)), P(A("cm"), F(1, 2))), P(Dv(A("m"), A("cm")), F(1, 2)), M(A("m"), P(A("cm"), -1)), Dv(M(A("xc"), A("m")), A("cm")),
        Dv(P(A("m"), 2), M(A("cm"), P(A("xc"), 2))), M(Dv(A("kg"), A("g")), Dv(A("km"), A("inch"))), Dv(A("min"), A("ms")), P(Dv(A("km"), A("cm")), 3),
        P(Dv(A("km"), A("cm")), -2), Dv(Dv(A("km"), A("cm")), Dv(A("kg"), A("g"))), M(P(A("m"), F(2, 3)), P(A("cm"), F(1, 3))), Dv(P(A("m"), F(-1, 2)), P(A("km"), F(-3, 2))),
        Dv(A("m"), A("m")), Dv(M(A("xc"), A("km")), A("mm")),
        M(M(A("xa"), A("xb")), P(A("xc"), -2)), Dv(P(A("xa"), 2), A("xa")), M(A("xa"), A("xb")),
    ]
    for a, b in RATIO_PAIRS:
        c = sym_bystander(a)
        hand += [Dv(A(a), A(b)), Dv(A(b), A(a)), M(M(A(a), P(A(b), -1)), A(c)), Dv(P(A(a), 2), A(b)), Dv(A(c), Dv(A(a), A(b)))]
    hand += [M(Dv(A("yr"), A("day")), A("m")), Dv(M(A("mile"), A("inch")), M(A("km"), A("cm"))), P(Dv(A("mile"), A("km")), 2), P(Dv(A("inch"), A("cm")), F(1, 2)),
             Dv(M(A("lb"), A("ft")), M(A("kg"), A("m")))]
    out = list(hand)
    pool = [A(a) for a in TAB_ATOMS]
    while len(out) < n:
        k = rnd.choice((2, 3, 3, 4))
        t = None
        with_xc = rnd.random() < 0.3
        for i in range(k):
            a = rnd.choice(pool)
            if with_xc and a[1] in ("s", "ms", "min", "J", "erg", "N", "dyn"):
                continue
            f = P(a, rnd.choice(EXPONENTS[1:])) if rnd.random() < 0.6 else a
            t = f if t is None else (M(t, f) if rnd.random() < 0.5 else Dv(t, f))
        if t is None:
            continue
        if with_xc:
            t = M(t, P(A("xc"), rnd.choice(EXPONENTS[1:])))
        if rnd.random() < 0.25:
            t = P(t, rnd.choice([F(1, 2), 2, -1, F(3, 2), F(1, 3), 3]))
        if t not in out:
            out.append(t)
    return out


# ----------------------------------------------------------------------------- offset / logarithmic guards

GUARDED = ["xt", "xg", "degC", "degF", "lat", "lon", "mdegC", "xl", "dB", "Np", "B"]
PARTNERS = ["one", "dimensionless", "%", "xz", "xa:xa", "xa", "rad", "K", "self", "other", "xl"]
TAB_GUARD = {"degC": (1.0, -273.15, TH_), "degF": (5.0 / 9.0, -459.67, TH_), "lat": (-0.017453292519943295, 90.0, ANG_),
             "lon": (0.017453292519943295, -180.0, ANG_), "mdegC": (1e-3, -273.15, TH_), "dB": (0.1151292546497023, 0.0, LOG_),
             "Np": (1.0, 0.0, LOG_), "B": (1.151292546497023, 0.0, LOG_)}


def guard_env(ctx, g, partner):
    """-> reg, unit under test, (scale, offset, dimname), partner unit, (scale, offset, dimvec)"""
    D = ctx.mods["unyt"].dimensions
    Unit = ctx.mods["unyt"].Unit
    reg = ctx.registry([])
    ctx.add_row(reg, "xa", D.length, ctx.real("sa", pos=True), 0.0, prefixable=True)

    def define(n):
        if n == "xt":
            s, o = ctx.real("st", pos=True), ctx.real("ot")
            ctx.add_row(reg, "xt", D.temperature, s, o)
            return s, o, TH_
        if n == "xu":
            s, o = ctx.real("su", pos=True), ctx.real("ou")
            ctx.add_row(reg, "xu", D.temperature, s, o)
            return s, o, TH_
        if n == "xg":
            s, o = ctx.real("sg", pos=True), ctx.real("og")
            ctx.add_row(reg, "xg", D.angle, s, o)
            return s, o, ANG_
        if n == "xl":
            s = ctx.real("sl", pos=True)
            ctx.add_row(reg, "xl", D.logarithmic, s, 0.0)
            return s, 0.0, LOG_
        return TAB_GUARD[n]

    gd = define(g)
    gu = Unit(g, registry=reg)
    if partner == "one":
        pu, pd = Unit(registry=reg), (1.0, 0.0, {})
    elif partner == "dimensionless":
        pu, pd = Unit("dimensionless", registry=reg), (1.0, 0.0, {})
    elif partner == "%":
        pu, pd = Unit("%", registry=reg), (0.01, 0.0, {})
    elif partner == "xz":
        s = ctx.real("sz", pos=True)
        ctx.add_row(reg, "xz", D.dimensionless, s, 0.0)
        pu, pd = Unit("xz", registry=reg), (s, 0.0, {})
    elif partner == "xa:xa":
        pu, pd = Unit("xa", registry=reg) / Unit("xa", registry=reg), (1.0, 0.0, {})
    elif partner == "xa":
        pu, pd = Unit("xa", registry=reg), (ctx.real("sa", pos=True), 0.0, {L_: F(1)})
    elif partner == "rad":
        pu, pd = Unit("rad", registry=reg), (1.0, 0.0, {ANG_: F(1)})
    elif partner == "K":
        pu, pd = Unit("K", registry=reg), (1.0, 0.0, {TH_: F(1)})
    elif partner == "self":
        pu, pd = gu, (gd[0], gd[1], {gd[2]: F(1)})
    elif partner == "other":
        n = "xu" if g != "xu" else "xt"
        d = define(n)
        pu, pd = Unit(n, registry=reg), (d[0], d[1], {d[2]: F(1)})
    elif partner == "xl":
        if g == "xl":
            pu, pd = Unit("dB", registry=reg), (TAB_GUARD["dB"][0], 0.0, {LOG_: F(1)})
        else:
            d = define("xl")
            pu, pd = Unit("xl", registry=reg), (d[0], 0.0, {LOG_: F(1)})
    else:
        raise KeyError(partner)
    return reg, gu, gd, pu, pd


def nonzero(o):
    """is this offset non-zero on this path (forks when symbolic)"""
    return bool(o != 0)


def _kind(off, log):
    return "logarithmic unit" if log else ("offset unit" if off else "plain unit")


def make_guard_binary_case(g, partner):
    """oracle (independent): call X 'special' if its offset is non-zero or its dimension is logarithmic.
    X*Y (either order): both plain -> ordinary product; exactly one special -> defined iff the other one is a dimensionless unit
    (scales multiply, dimension of the special one; offset kept when the dimensionless factor has scale 1); both special -> raises.
    X/Y: Y special -> raises; X special -> defined iff Y is a dimensionless unit. 'raises' means InvalidUnitOperation."""
    def h(ctx):
        reg, gu, (gs, go, gdim), pu, (ps, po, pdv) = guard_env(ctx, g, partner)
        exc = ctx.mods["unyt"].exceptions.InvalidUnitOperation
        g_off, p_off = nonzero(go), nonzero(po)
        g_log, p_log = gdim == LOG_, pdv == {LOG_: F(1)}
        g_special, p_special = g_off or g_log, p_off or p_log
        p_dimless = pdv == {}
        gdv = {gdim: F(1)}
        unit_scale = partner in ("one", "dimensionless", "xa:xa")
        kind = _kind(g_off, g_log)

        def vec(a, b, sign):
            out = dict(a)
            for k, e in b.items():
                out[k] = out.get(k, F(0)) + sign * e
            return {k: e for k, e in out.items() if e != 0}

        for op, fn in (("g*p", lambda: gu * pu), ("p*g", lambda: pu * gu), ("g/p", lambda: gu / pu), ("p/g", lambda: pu / gu)):
            r = call(fn)
            tag = f"guard {op} ({kind})"
            want_o = None
            if op in ("g*p", "p*g"):
                allowed = (not g_special and not p_special) or (g_special and not p_special and p_dimless)
                want_s, want_d = gs * ps, vec(gdv, pdv, 1)
            elif op == "g/p":
                allowed = (not p_special) and (not g_special or p_dimless)
                want_s, want_d = gs / ps, vec(gdv, pdv, -1)
            else:
                allowed = (not g_special) and (not p_special or False)
                want_s, want_d = ps / gs, vec(pdv, gdv, -1)
            if allowed and op != "p/g":
                want_o = (go if (g_special and unit_scale) else (0.0 if not g_special else None))
            elif allowed:
                want_o = 0.0
            if allowed is None:
                if r[0] == "ok":
                    ctx.require(f"{tag}: if defined, scale and dimension", And(close(r[1].base_value, want_s), dimvec(r[1].dimensions) == want_d))
                else:
                    ctx.require(f"{tag}: if undefined, InvalidUnitOperation", type(r[1]) is exc, got=r[1])
            elif allowed:
                ctx.require(f"{tag}: defined => returns", r[0] == "ok", got=r[1])
                if r[0] == "ok":
                    w = r[1]
                    ctx.require(f"{tag}: scale and dimension", And(close(w.base_value, want_s), dimvec(w.dimensions) == want_d))
                    if want_o is not None:
                        ctx.require(f"{tag}: offset", close(w.base_offset, want_o))
                    if g_special and unit_scale:
                        ctx.require(f"{tag}: the dimensionless unit is the identity", bool(w == gu))
                    ctx.observe(op, [w.base_value, w.base_offset])
            else:
                ctx.require(f"{tag}: outside the algebra => raises InvalidUnitOperation", r[0] == "raise" and type(r[1]) is exc, got=r[1])
            ctx.observe(op + " outcome", r[0])
    return Case(f"C05/guard/{g}/{partner.replace(':', '_over_')}", h, group="guard")


POW_GROUPS = {"offset": ["xt", "xg", "degC", "degF", "lat", "lon", "mdegC"], "logarithmic": ["xl", "dB", "Np", "B"]}


def make_guard_pow_case(group):
    """u**1 == u (offset kept); for an offset or logarithmic unit u**p with p not in {0, 1} is outside the algebra exactly as u*u and
    1/u are: it raises; the spellings u**2 / u*u and u**-1 / 1/u agree on whether the operation is defined"""
    def h(ctx):
        for g in POW_GROUPS[group]:
            reg, gu, (gs, go, gdim), one, _ = guard_env(ctx, g, "one")
            exc = ctx.mods["unyt"].exceptions.InvalidUnitOperation
            g_off, g_log = nonzero(go), gdim == LOG_
            special = g_off or g_log
            kind = _kind(g_off, g_log)
            bad_raise, bad_plain, kept = [], [], []
            for p in EXPONENTS:
                for form in ("frac", "float"):
                    r = call(lambda: gu ** exponent_value(p, form))
                    tag = f"guard pow ({kind}) {g} p={fstr(p)} {form}"
                    if p == 1:
                        if r[0] != "ok":
                            bad_plain.append((g, fstr(p), form, repr(r[1])))
                        else:
                            kept.append(And(close(r[1].base_value, gs), close(r[1].base_offset, go), dimvec(r[1].dimensions) == {gdim: F(1)}, bool(r[1] == gu)))
                    elif not special:
                        if r[0] != "ok":
                            bad_plain.append((g, fstr(p), form, repr(r[1])))
                        else:
                            want_d = {gdim: p} if p != 0 else {}
                            ctx.require(f"guard pow ({kind}): scale, offset, dimension of a power",
                                        And(close(r[1].base_value, fpow(gs, p)), close(r[1].base_offset, 0.0), dimvec(r[1].dimensions) == want_d), unit=g, p=p)
                    elif p == 0 and not g_log:
                        pass   # u**0 of an offset unit: the identity or an error, both defensible - not asserted
                    elif not (r[0] == "raise" and type(r[1]) is exc):
                        bad_raise.append((g, fstr(p), form, repr(r[1])))
                    ctx.observe(tag, r[0])
            ctx.require(f"guard pow ({kind}): first power is u itself, offset kept", And(*kept), unit=g)
            ctx.require(f"guard pow ({kind}): powers inside the algebra are defined", not bad_plain, raised=bad_plain)
            if special:
                ctx.require(f"guard pow ({kind}): powers outside the algebra (p not 0, 1) raise InvalidUnitOperation", not bad_raise, returned_instead=bad_raise)
            sq, mm = call(lambda: gu ** 2), call(lambda: gu * gu)
            ctx.require(f"guard square vs product ({kind}): both defined or both raise", sq[0] == mm[0], unit=g)
            inv, dv = call(lambda: gu ** -1), call(lambda: one / gu)
            ctx.require(f"guard inverse vs quotient ({kind}): both defined or both raise", inv[0] == dv[0], unit=g)
    return Case(f"C05/guard/pow/{group}", h, group="guard")


# ----------------------------------------------------------------------------- unit (x) number

def make_scalar_case(name):
    def h(ctx):
        reg, env, scale_of, dimvec_of = make_env(ctx)
        u = env["xa"] / env["xc"]
        x = ctx.real("x", nonzero=True)
        if name == "x*u":
            q = x * u
            want_v, want_u = x, u
        elif name == "u*x":
            q = u * x
            want_v, want_u = x, u
        elif name == "u/x":
            q = u / x
            want_v, want_u = 1.0 / x, u
        elif name == "x/u":
            q = x / u
            want_v, want_u = x, u ** -1
        ctx.require(f"{name}: a quantity with the number as value and the unit untouched",
                    And(close(payload(q)[0], want_v), q.units.expr == want_u.expr, close(q.units.base_value, want_u.base_value), dimvec(q.units.dimensions) == dimvec(want_u.dimensions)))
        ctx.observe(name, payload(q)[0])
    return Case(f"C05/scalar/{name.replace('/', ':')}", h, group="scalar")


# ----------------------------------------------------------------------------- all ordered pairs of table atoms (ground)

def make_table_pairs_case(a, names):
    def h(ctx):
        Unit = ctx.mods["unyt"].Unit
        from unyt._unit_lookup_table import default_unit_symbol_lut as lut
        reg = ctx.registry([])
        x = ctx.real("sx", pos=True)
        ctx.add_row(reg, "xc", ctx.mods["unyt"].dimensions.time, x, 0.0)
        ua = Unit(a, registry=reg)
        n_ok = 0
        for b in names:
            ub = Unit(b, registry=reg)
            r1, r2 = call(lambda: ua * ub), call(lambda: ub * ua)
            ctx.require(f"table pair {a},{b}: u*v and v*u both defined or both raise", r1[0] == r2[0])
            if r1[0] == "ok":
                n_ok += 1
                p, q = r1[1], r2[1]
                ctx.require(f"table pair {a},{b}: commutative, scale product, dimension product",
                            And(bool(p == q), p.expr == q.expr, hash(p) == hash(q), close(p.base_value, lut[a][0] * lut[b][0]),
                                dimvec(p.dimensions) == dimvec(lut[a][1] * lut[b][1])))
            d1, d2 = call(lambda: ua / ub), call(lambda: ua * ub ** -1)
            if d1[0] == "ok" and d2[0] == "ok":
                ctx.require(f"table pair {a},{b}: u/v == u*v**-1", And(bool(d1[1] == d2[1]), close(d1[1].base_value, lut[a][0] / lut[b][0])))
        xc = Unit("xc", registry=reg)
        r = call(lambda: (ua * xc) / ua)
        if r[0] == "ok":
            ctx.require(f"table atom {a}: (u*xc)/u == xc for every scale of xc", And(close(r[1].base_value, x), bool(r[1] == xc)))
        ctx.observe("defined products", n_ok)
    return Case(f"C05/tablepairs/{a}", h, group="tablepairs")


def cases(tier, mods):
    check_names(mods, NAMES)
    quick = tier == "quick"
    out = []
    atoms, d1, d2, d3 = catalogue(ATOMS, 260 if quick else 1800, 260 if quick else 1800)
    some_p = [F(2), F(-1, 2), F(2, 3)]
    for t in atoms + d1:
        out.append(make_term_case(t, EXPONENTS))
    for t in d2 + d3:
        out.append(make_term_case(t, some_p))
    for t in atoms + d1:      # the same laws with plain positive symbols and the engine's root witnesses (QF_NRA), as a cross-check of the exact-monomial encoding
        out.append(make_term_case(t, [F(2), F(-1), F(1, 2), F(-1, 3), F(3, 2)], witness=True))
    rnd = random.Random(7)
    pool = atoms + d1 + d2
    pp_terms = atoms + rnd.sample(d1, 6 if quick else 20) + rnd.sample(d2, 4 if quick else 16)
    for t in pp_terms:
        for p in EXPONENTS:
            out.append(make_powpow_case(t, p))
    seen = set()
    for a, b in itertools.product(atoms, atoms):
        out.append(make_pair_case(a, b, EXPONENTS))
        seen.add((a, b))
    while len(seen) < 16 + (150 if quick else 1000):
        a, b = rnd.choice(pool), rnd.choice(pool)
        if (a, b) not in seen:
            seen.add((a, b))
            out.append(make_pair_case(a, b, rnd.sample(EXPONENTS[2:], 3)))
    seen = set()
    for tr in itertools.product(atoms, atoms, atoms):
        out.append(make_triple_case(*tr))
        seen.add(tr)
    while len(seen) < 64 + (100 if quick else 1000):
        tr = (rnd.choice(pool), rnd.choice(pool), rnd.choice(pool))
        if tr not in seen:
            seen.add(tr)
            out.append(make_triple_case(*tr))
    out += alike_cases(quick)
    out += coef_cases(quick)
    for name, extra, t1, t2 in EQ_PAIRS:
        out.append(make_eq_case(name, extra, t1, t2))
    out += law_cases(quick)
    out.append(make_eq_offset_case("temperature"))
    out.append(make_eq_offset_case("angle"))
    for a, b, want in TABLE_EQ:
        out.append(make_table_eq_case(a, b, want))
    have = {(a, b) for a, b, _ in TABLE_EQ}
    for a, b, want in magnitude_pairs(tier):
        if (a, b) not in have:
            out.append(make_table_eq_case(a, b, want, family="magnitude"))
    for s in HASH_STRINGS:
        out.append(make_hash_case(s))
    for hist in HISTORIES:
        for s in (HIST_EXPRS if (not quick or len(hist) > 1) else HIST_EXPRS[:4]):
            out.append(make_hashhist_case(s, hist))
    st = simp_terms(260 if quick else 1000)
    for i, t in enumerate(st):
        out.append(make_simp_case(t, i))
    i = 0
    while i < (40 if quick else 300):
        t1, t2 = rnd.choice(st[:60] + [A(a) for a in TAB_ATOMS]), rnd.choice([A(a) for a in TAB_ATOMS] + st[:20])
        if cancels_symbolically(_atoms(t1) | _atoms(t2)):
            continue
        out.append(make_rule_case(t1, t2, i))
        i += 1
    for g in GUARDED:
        for p in PARTNERS:
            out.append(make_guard_binary_case(g, p))
    for grp in POW_GROUPS:
        out.append(make_guard_pow_case(grp))
    for n in ("x*u", "u*x", "u/x", "x/u"):
        out.append(make_scalar_case(n))
    if not quick:
        from unyt._unit_lookup_table import default_unit_symbol_lut as lut
        names = sorted(lut)
        for a in names:
            out.append(make_table_pairs_case(a, names))
    return out
