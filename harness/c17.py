"""C17 - conversions and mixed-unit arithmetic never truncate to integers (partial: see MANIFEST / OUTSIDE)."""
import ast
import collections
import copy
import math
import operator
import os
import sys
import warnings
from fractions import Fraction

import numpy as np
import z3

from symx.core import SymBool, SymReal
from symx.shims import REPO, HarnessError, NpShim, clear_caches

from .common import And, Case, Or, call, check_names, close, elements

LEVEL = "other"
MANIFEST = dict(
    category="other",
    text=("Two parts. (a) SMT over bit-vectors and IEEE floating point (z3 QF_BVFP): the precision-loss warning condition of "
          "in_units/convert_to_units (comparison operator, abs, guard and the LARGE_INPUT table, read from the AST of the current "
          "unyt/array.py on every run) is turned into a formula over an integer v of each width and signedness; z3 decides "
          "'exists v that the target float cannot hold exactly and for which no RuntimeWarning is due'; unsat = the warning covers "
          "every such integer of that dtype, a model is replayed by really converting an array holding v on plain unyt. The formula "
          "is validated against the executed code at the boundary integers on every run. (b) The real conversion and ufunc code is "
          "run on real typed NumPy arrays (every integer, unsigned, float16/32/64, complex64/128 dtype x route); where the code path "
          "allows it the unit scales are z3 reals and z3 proves result == v*s_from/s_to (not truncated) for ALL positive scales, and "
          "the dtype the code requests is read from a cast-request log. Everything else in (b) - result dtypes, copy/in-place "
          "agreement, in-place routes, out= promotion, complex operands, equivalence routes - is decided on concrete table units and "
          "concrete boundary values: that share is ENUMERATION of the finite dtype x route map, not a solver verdict, and is claimed "
          "only as such. (c) Call histories: the choice of dtype, the values and the warning must not depend on what was converted "
          "earlier in the same process. Sequences of two and three calls (conversion routes, in-place routes, same-dimension and "
          "spectral equivalence routes, mixed-unit add / floor_divide, out= promotion; arrays and quantities; every ordered pair of the "
          "13 dtypes) are run inside ONE path from the module state of a freshly imported library, once on table units and once more, from "
          "that state again, with the copy-route and add steps in harness units whose scales are z3 reals; every step is held to the "
          "single-call obligations (z3 proves the values for ALL scales after the history, the cast log gives the requested dtype), and "
          "operands and results of earlier steps must still hold their numbers when the history ends. Which histories are run is "
          "enumeration. (d) Two further discrete axes are walked through all of the above: dtype IDENTITY beyond kind and item size "
          "(C long long / unsigned long long next to int64 / uint64, and every multi-byte dtype in the other byte order: 13 more dtype "
          "names, through the threshold queries, the routes, the ufuncs, out= and the histories), and the UNIT FAMILY x unit system x "
          "call form (identical unit, equal scale under another spelling, offset units, SI-prefixed and cross-system electromagnetic "
          "units, E&M units that already are the system's own unit, compound, derived and dimensionless units; mks, cgs, imperial; "
          "to/in_units/to_value/convert_to_units/to_equivalent/convert_to_equivalent with the target as a name or a Unit object, "
          "in_base(system), in_base(), in_mks()/in_cgs(), convert_to_base(system), convert_to_mks()/convert_to_cgs(); mixed-unit ufuncs "
          "over E&M, compound, derived, dimensionless and temperature-difference pairs) against exact rational factors written in the "
          "harness; for the offset family the scales AND offsets of two harness temperature units are z3 reals and z3 proves the affine "
          "image for all of them. (e) Two further conversion routes that are handed the raw (integer) data before any float type is chosen: "
          "every registered equivalence in EVERY DIRECTION of its dimension table (34 direction rows over the 9 equivalences, incl. keyword "
          "arguments mu/gamma; a registered equivalence without rows is an error) x 8 call forms (to with the equivalence positional and by "
          "keyword, in_units, to_value, to_equivalent, convert_to_units positional/keyword, convert_to_equivalent) x array/scalar x dtype, "
          "against the physical formulas and constants written in the harness, with values whose images are fractional and - where the "
          "direction takes a power of the data - values whose power leaves the integer type; for the directions that are one multiply or "
          "divide the target unit (and for the constant-free reciprocal directions also the source unit) is a harness unit whose scale is "
          "a z3 real and z3 proves the image for ALL scales; and python SEQUENCES of quantities in different commensurable units (list / "
          "tuple, of quantities / of arrays) as first or second operand of a binary ufunc, of the +,-,< operators, or as the constructor's "
          "argument (10 container forms x 3 unit families x dtype), with the two unit scales of the elements as z3 reals for the length "
          "family. Converted values as IEEE numbers are not claimed."),
    design="DESIGN.md section 4 C17",
    technique="SMT (bit-vectors + floating point) threshold queries built from the source AST; symbolic execution of the real Python "
              "code over typed arrays with z3-real unit scales; concrete enumeration of the dtype x route map and of two- and three-call "
              "histories run inside one path; counterexample replay")
EXPLANATION = (
    "(a) For every integer dtype and every conversion route the target float format is taken from a real run, the warning "
    "condition from the AST of the current source (LARGE_INPUT literal, `large = LARGE_INPUT.get(dsize, 0)`, the `if` guarding "
    "warnings.warn(..., RuntimeWarning), delegation self.in_units/self.convert_to_units followed; a route without a site never "
    "warns), NumPy's own 'overflow encountered in cast' RuntimeWarning is modelled as 'rounds to infinity'. z3 decides "
    "exists v: not exact(v) and not overflow(v) and not warn(v), with NumPy's wrapping abs on the most negative integer modelled as "
    "wrapping bit-vector negation; exact/overflow are written as pure bit-vector predicates (significand fits after dropping trailing "
    "zeros; |v| >= 2**emax - half ulp) and the C17/encoding cases prove them equivalent, for every v of every width, to the IEEE "
    "definitions fp.to_sbv(RTZ, to_fp(RNE, v)) == v and isInf(to_fp(RNE, v)) in z3's FloatingPoint theory. (b) in_units/to/to_value/"
    "in_base and mixed-unit add/subtract run on int/uint/float typed arrays in harness units whose scales are z3 reals: the product "
    "of a typed buffer with a symbolic factor is an object array of exact terms, z3 proves r*sb == v*sa (SI form, 1e-6 band widened "
    "to 8 ulp of the narrowest float involved) for all sa, sb > 0; the NpShim cast log shows which dtype the code asked for (float of the input's item size, >= 16 bit). The in-place "
    "routes, out= buffers and complex operands cannot carry a symbolic factor (a typed buffer cannot hold a term): they run on table "
    "units km/m (and keV/K, km/Hz for equivalences) with boundary values and are compared with exact rational arithmetic rounded to "
    "the narrowest float involved. (c) Histories: a step is one call of one kind (to, in_units, to_value, in_base, to_equivalent, "
    "convert_to_units, convert_to_base, convert_to_equivalent, add, floor_divide, out=, spectral equivalence; '@q' = on a unyt_quantity) "
    "on data of one dtype; a history is two or three steps executed in one path. Every path of every C17 case starts by putting the "
    "module-level and class-level containers and simple globals of all unyt modules back to what `import unyt` left there (and by "
    "clearing the lru_caches), because the replay starts from a fresh interpreter; a history is run twice from that state: on table units "
    "(m->km, cm->m for the base routes: factors a narrow float cannot hold exactly, so a factor remembered in another type shows), then "
    "with the copy-route / add steps on real data in harness units of symbolic scale (the other steps stay on table units). Obligations "
    "are conjunctions over the steps, one label per obligation kind: succeeds (or raises only for 1-byte integers), floating kind / "
    "complex stays complex, float of the item size, values (exact rationals on table units; v*s_from/s_to for ALL scales by z3), requested "
    "dtype from the cast log, RuntimeWarning at every step that converts the first integer its float cannot hold, inputs untouched, and "
    "operands/results of earlier steps unaltered at the end (values differ from step to step, six per array for every dtype, so a buffer "
    "shared between steps shows). (d) dtype identity: 'longlong'/'ulonglong' (own scalar type object, type character q/Q and type "
    "number although kind and item size are those of int64/uint64) and '<dtype>-swapped' (non-native byte order) are further values of "
    "the dtype axis of every case family; dtype obligations compare kind and item size (byte order is storage). Unit families: the "
    "C17/units cases run every row of NAMED_ROWS / BASE_ROWS (source unit, target unit or unit system, exact rational factor and shift "
    "written from the definitions of the units, not read from unyt) through one call form on array and scalar data of one dtype and "
    "hold it to the obligations of the km<->m rows: succeeds (in-place routes may raise for 1-byte integers only), floating kind, float "
    "of the item size, values v*factor+shift rounded to the narrowest float involved, target unit, RuntimeWarning when the data hold "
    "2**p+1, input untouched, copy and in-place forms agree on dtype and values. The offset family additionally runs the copy forms on "
    "two harness temperature units whose scales and offsets are z3 reals: z3 proves s_b*(r-o_b) == s_a*(v-o_a) for all of them. The "
    "C17/binary-units cases do the same for mixed-unit add/subtract/less/maximum, including the temperature branch in which the FIRST "
    "operand is rescaled (difference + point). The runner's history axis (warm variants) is effective for C17: a path is put into the "
    "fresh-library state once, before the first function it runs, so a predecessor case's state is met by the case under test; "
    "WARM_PARTNERS forces, for the unit-family cases, the same form and family on another dtype as predecessor. (e) C17/equivalence/<name>/"
    "<direction>/<dtype>: one row of EQ_ROWS (equivalence, source dimension -> target dimension, a source and a target table unit, the image "
    "of a held number as a python formula over constants written in the harness, keyword arguments) through all 8 call forms on an array "
    "and on a quantity; obligations as for the plain routes (succeeds - in-place forms may raise for 1-byte integers only -, floating kind, "
    "float of the item size [known finding for the copy forms], values within 2e-3 or 16 ulp of the image - a non-finite number in a float "
    "narrower than 8 bytes and a zero in a 2-byte float are IEEE range effects of the constants h, k_B, c**2 and are excused -, target unit, "
    "input untouched, the copy forms agree with each other, copy and in-place forms agree on dtype [known finding] and values), plus, for "
    "directions that square or raise the data (sound_speed from velocities, effective_temperature to flux, lorentz from gamma), two values "
    "whose power exceeds the integer type under a label of their own (known finding for sound_speed). Symbolic pass (real dtypes, forms to "
    "and to_equivalent): target harness unit xb of scale s_b, source harness unit xa of scale s_a for length<->spatial_frequency or the "
    "row's table unit otherwise; z3 proves r*s_b == f_SI(v*s_a). C17/sequence/<op>/<form>/<family>/<dtype>: three elements (1 of the first "
    "unit, 500 and 250 - 50 and 25 for 1-byte types - of the second: converted values 0.5 and 0.25) of one dtype as list/tuple of "
    "quantities or of 2-element arrays, combined with an array [2,2,2] of the same dtype in the first unit through np.<op>(seq, arr), "
    "np.<op>(arr, seq), arr <op> seq, seq <op> arr, or handed to unyt_array(seq): result floating and not narrower than the float of the "
    "elements' item size (constructor: exactly that float), exact rational values, first operand's unit, elements untouched; symbolic "
    "pass on harness units xa, xb, xb: z3 proves result*s_a == v*s + (+-)2*s_a for all scales."
)
BOUNDS = {
    "quick": "(a) 8 integer dtypes x routes {in_units, to, to_value, convert_to_units, in_base, convert_to_base}: every value of the "
             "dtype is covered by the bit-vector symbol (48 queries) + 24 encoding-equivalence queries; (b) 13 dtypes x the 6 routes, "
             "array (<= 18 boundary values: 0, +-1, small, 2**11/24/53 (+1), LARGE_INPUT entries (-1), dtype limits) and scalar quantity, "
             "km<->m; thermal and spectral equivalence x 13 dtypes; mixed-unit ufuncs {add, subtract, less, floor_divide} x real dtype "
             "pairs {same dtype, float64 first}, {add, subtract} x 8 pairs with a complex operand; out= {same unit, mixed unit, unary, "
             "integer operands, plain ndarray out} x 13 out dtypes; symbolic scales (two z3 reals, > 0, differing by > 0.1%) for the copy "
             "routes on int/uint/float data and for add/subtract on real typed operands; (c) histories: two steps to->to for all 13x13 "
             "ordered dtype pairs; two steps for all 5x5 pairs of the sites {to, in_base, convert_to_units, add, out=} x 31 colliding "
             "dtype pairs (same item size with another target: float64/int64/uint64 vs complex64; same kind with another size; other "
             "kind and size; three repeats), both orders; each remaining kind {in_units, to_value, to_equivalent, convert_to_base, "
             "convert_to_equivalent, floor_divide, spectral} before and after to and add x 8 pairs; quantities (to, convert_to_units, "
             "in_base on a unyt_quantity) before/after an array and twice; three steps over {float32, int64, float64, complex64, "
             "complex128}^3 through to/to/to and a quarter of them through three mixed site patterns (about 1400 histories); (d) the 13 "
             "dtype-identity variants {longlong, ulonglong, int/uint16/32/64-swapped, float16/32/64-swapped, complex64/128-swapped} "
             "through: all threshold queries (8 integer variants x 6 routes), all 6 routes, both equivalences, out= (5 kinds), ufuncs "
             "{add, subtract, less, floor_divide} with themselves and after float64 (add: also before float64 and next to their canonical "
             "twin), complex add/subtract, histories to->to with the canonical twin and complex64 in both orders and 4 identity pairs in "
             "the 5x5 site product; unit families: named-target forms {to, in_units, to_value, convert_to_units, to_equivalent, "
             "convert_to_equivalent} x 7 families (24 unit pairs; target as name and as Unit object; array and scalar) and base forms "
             "{in_base(system), in_base(), in_<system>(), convert_to_base(system), convert_to_<system>()} x 8 families (36 unit/system "
             "rows; mks, cgs, imperial) x 10 dtypes {int8, uint16, int32, int64, uint64, float16, float32, complex64, longlong, "
             "int32-swapped}; 7 integer/float values per array incl. the dtype maximum and 2**p+1; offset family: two scales > 0 "
             "(differing by > 0.1%) and two non-zero offsets as z3 reals for the copy forms; binary unit families: add x 8 unit pairs x "
             "(11 real dtypes + 3 variants + 5 mixed pairs), less x 5 pairs x 6; warm variants: 90 sampled, up to half of them forced "
             "unit-family pairs; (e) equivalences: all 34 direction rows x 8 forms x array/scalar x 9 dtypes {int8, uint16, int32, int64, uint64, "
             "float16, float32, complex64, longlong}, 4 values (+2 power-overflow values), symbolic unit scales for 16 multiply/divide "
             "directions; sequences: list/tuple as first/second ufunc operand with add (list forms: also less), operator forms with add, "
             "three constructor forms, list-of-arrays operand; 3 unit families for the list and constructor-list forms, length otherwise; 9 dtypes",
    "thorough": "(a) same; (b) same routes/equivalences/out= cases; mixed-unit ufuncs {add, subtract, maximum, minimum, remainder, hypot, "
                "arctan2, floor_divide, less, greater_equal, equal, not_equal} x real dtype pairs {same dtype, float64/int64/float16 "
                "first}, all 11x11 real pairs for add/subtract; {add, subtract, equal, not_equal} x complex64/128 paired with every dtype "
                "in both positions; symbolic scales as in quick; (c) histories: two steps for all 7x7 pairs of the sites {to, in_base, "
                "convert_to_units, convert_to_base, add, out=, to_equivalent} x the 31 colliding dtype pairs, and x all 13x13 ordered "
                "dtype pairs where both sites are the same or one is to (19 site pairs); the remaining kinds before and after to and add "
                "x the 31 colliding pairs; quantities for 5 kinds; three steps over 8 dtypes cubed x 4 site patterns (about 7 200 "
                "histories; the full 7x7x169 product was cut for wall time); (d) as quick, with all 26 dtype names for the unit-family cases, "
                "ufuncs x the variants in both positions, to->to histories of every variant with all 13 canonical dtypes, 9 identity pairs "
                "in the 7x7 site product, binary unit families {add, subtract, less, maximum} x all real dtypes and variants; all forced "
                "warm pairs; (e) equivalence rows x all 26 dtype names; sequences: all 10 forms x {add, subtract, less, maximum, floor_divide} "
                "x 3 unit families x 21 real dtype names",
}
OUTSIDE = ("(e): assignment of quantities into an existing integer buffer (a[i] = q, a[:] = [q1, q2], np.copyto, ndarray.fill, np.pad "
           "constant_values: the destination keeps its integer dtype, NumPy's own store semantics) and the array functions that accept "
           "operands in different units (np.diff prepend/append, np.histogram bins/range, np.var mean, np.isclose ...: see C06/C07) are not "
           "walked; np.concatenate/stack/where/clip/append refuse mixed units; equivalence directions through powers and roots (lorentz, "
           "sound_speed from/to velocities, effective_temperature) and complex data have no symbolic-scale pass (sqrt of a symbolic "
           "scale) and are enumeration on table units; equivalence values in float16/float32 where the constants leave the type's range "
           "are held to the dtype obligations only; the converted values as IEEE numbers (double rounding through astype + multiply) - only 'not truncated: within 8 ulp of the "
           "narrowest float the data passes through' is checked on concrete runs and exact real arithmetic (1e-6 band, widened to 8 ulp "
           "of that float) on symbolic ones (A1); overflow to inf counts as rounding, including the in-place route's first step that "
           "casts the integer itself to the float of its item size (uint16 65535 m -> inf km in place, 65.56 km by the copy route; "
           "NumPy warns); the result WIDTH of mixed-unit arithmetic beyond 'floating point and not narrower than the converted operand' "
           "(NumPy promotes int32 + float32 to float64); longdouble/clongdouble, bool, object and structured dtypes; dtype identities that "
           "do not exist on this platform (on LP64 Linux C long long is the only integer type that shares kind and item size with another "
           "one; where C long is 32 bit the pair is int32/long instead and is not walked); unit rows whose factor is not a normal number "
           "of the narrowest float involved (1 km = 1e5 cm, 1 A = 3e9 statA in float16: the in-place routes multiply by an infinite "
           "factor, 0*inf = nan) are held to the dtype obligations only; E&M units, identical units and table offsets carry no continuous "
           "unit parameter a solver could range over (the E&M tables are keyed by unit name): those families are enumeration on typed "
           "boundary data; which UNIT unyt's base routes pick for prefixed E&M units in another system (kG -> 'kT' in cgs) and the "
           "statV/V factor are not C17's subject and those rows are not in the tables; binary ufuncs whose units are equal in scale "
           "under different spellings (J + N*m, delta_degC + K) involve no conversion and stay integer - not walked; ordering "
           "comparisons across temperature scales; in-place routes, "
           "out=, equivalence routes and complex operands with symbolic scales (enumerated on table units instead); multiple-output "
           "ufuncs with out=; dask arrays; which of the two warnings' texts is shown (any RuntimeWarning counts); histories longer than three "
           "calls, histories through calls other than the listed kinds (pickling, copying, registry edits - see C11-C13), histories across "
           "several registries or unit pairs other than m/km/cm and the two harness units; the item size of the cross-dimension equivalence "
           "step inside a history (known finding, reported by the C17/equivalence cases; the step is held to kind and values); state the "
           "library might keep where the per-path reset does not reach (closures, attributes of long-lived objects): it would leak between "
           "cases of one worker and surface as a counterexample that does not replay (exit 2), never as a pass of the history cases, which "
           "build their own history")
ASSUMPTIONS = [
    "C17(a): np.abs on a signed integer array wraps at the most negative value; comparing an integer array with a python int is the "
    "mathematical comparison; casting to a float type rounds to nearest-even and NumPy emits RuntimeWarning 'overflow encountered in "
    "cast' exactly when the rounded value is infinite - each validated against the executed code at the boundary integers on every run",
    "C17 histories: restoring the module-level and class-level dict/list/set objects and simple globals of the unyt modules to their "
    "contents after import, plus clearing the lru_caches, puts the library into the state of a fresh interpreter (what the replay uses); "
    "a counterexample found under this assumption is confirmed only if it replays in a really fresh interpreter",
]
CONFORM = {"quick": 60, "thorough": 160}

NAMES = ["xa", "xb"]
INT_DTYPES = ["int8", "uint8", "int16", "uint16", "int32", "uint32", "int64", "uint64"]
FLOAT_DTYPES = ["float16", "float32", "float64"]
COMPLEX_DTYPES = ["complex64", "complex128"]
ALL_DTYPES = INT_DTYPES + FLOAT_DTYPES + COMPLEX_DTYPES
FMT = {2: (5, 11), 4: (8, 24), 8: (11, 53)}  # float item size -> (exponent bits, significand bits incl. hidden)
WARN_LABEL = "RuntimeWarning when the float cannot hold the integer"
UNYT_WARNING_TEXT = "Overflow encountered while converting"

# ----------------------------------------------------------------------------------------------- dtype identity axis
# A dtype is more than kind + item size: the same width exists as several C types with their own scalar type object, type
# character and type number (C long long next to C long on LP64 platforms, where NumPy's int64 is C long), and in the other
# byte order. The property quantifies over "all integer, unsigned, float and complex dtypes", so these are walked as further
# values of the dtype axis under their own names (np.dtype would print longlong as 'int64').
SWAP = "-swapped"
VARIANT_INT = ["longlong", "ulonglong"] + [d + SWAP for d in INT_DTYPES if np.dtype(d).itemsize > 1]
VARIANT_FLOAT = [d + SWAP for d in FLOAT_DTYPES]
VARIANT_COMPLEX = [d + SWAP for d in COMPLEX_DTYPES]
VARIANT_DTYPES = VARIANT_INT + VARIANT_FLOAT + VARIANT_COMPLEX
EVERY_DTYPE = ALL_DTYPES + VARIANT_DTYPES


def DT(name):
    """harness dtype name (or dtype) -> np.dtype; '<name>-swapped' is the non-native byte order"""
    if isinstance(name, str) and name.endswith(SWAP):
        return np.dtype(name[:-len(SWAP)]).newbyteorder("S")
    return np.dtype(name)


def dname(dt):
    """np.dtype (or harness name) -> harness dtype name, keeping the C type and the byte order apart"""
    dt = DT(dt)
    base = {"q": "longlong", "Q": "ulonglong"}.get(dt.char) if np.dtype("q") is not np.dtype("int64") else None
    base = base or str(dt.newbyteorder("="))
    return base + (SWAP if dt.byteorder not in "=|" and dt != dt.newbyteorder("=") else "")


def same_type(a, b):
    """same kind and item size (byte order is storage, not part of the property)"""
    return DT(a).newbyteorder("=") == DT(b).newbyteorder("=")



# =============================================================================================== (a) source model

class Site:
    """the warning condition of one function as found in the source"""

    def __init__(self, fn, test, assigns):
        self.fn, self.test, self.assigns = fn, test, assigns


def _is_runtime_warn(node):
    if not (isinstance(node, ast.Expr) and isinstance(node.value, ast.Call)):
        return False
    c = node.value
    f = c.func
    name = f.attr if isinstance(f, ast.Attribute) else getattr(f, "id", None)
    if name != "warn":
        return False
    args = list(c.args) + [k.value for k in c.keywords]
    return any(isinstance(a, ast.Name) and a.id == "RuntimeWarning" for a in args)


_source_cache = {}


def read_source_model():
    """LARGE_INPUT and the warning sites of the conversion routines, from the CURRENT source (regenerated on every run)"""
    path = os.path.join(REPO, "unyt", "array.py")
    if path in _source_cache:
        return _source_cache[path]
    tree = ast.parse(open(path).read(), path)
    large = None
    for node in tree.body:
        if isinstance(node, ast.Assign) and any(isinstance(t, ast.Name) and t.id == "LARGE_INPUT" for t in node.targets):
            try:
                large = ast.literal_eval(node.value)
            except ValueError as e:
                raise HarnessError(f"C17: LARGE_INPUT in {path} is not a literal: {e}")
    if not isinstance(large, dict):
        raise HarnessError(f"C17: no module-level LARGE_INPUT dict literal in {path}")
    cls = next((n for n in tree.body if isinstance(n, ast.ClassDef) and n.name == "unyt_array"), None)
    if cls is None:
        raise HarnessError("C17: class unyt_array not found in unyt/array.py")
    fns = {n.name: n for n in cls.body if isinstance(n, ast.FunctionDef)}
    sites, delegates = {}, {}
    for name, fn in fns.items():
        found = [n for n in ast.walk(fn) if isinstance(n, ast.If) and any(_is_runtime_warn(b) for b in n.body)]
        if len(found) > 1:
            raise HarnessError(f"C17: {len(found)} RuntimeWarning sites in unyt_array.{name}, expected at most one")
        if found:
            assigns = {}
            for n in ast.walk(fn):
                if isinstance(n, ast.Assign) and len(n.targets) == 1 and isinstance(n.targets[0], ast.Name):
                    assigns.setdefault(n.targets[0].id, []).append(n.value)
            sites[name] = Site(name, found[0].test, assigns)
        calls = []
        for n in ast.walk(fn):
            if isinstance(n, ast.Call) and isinstance(n.func, ast.Attribute) and isinstance(n.func.value, ast.Name) \
                    and n.func.value.id == "self":
                calls.append(n.func.attr)
        delegates[name] = calls
    for must in ("in_units", "convert_to_units"):
        if must not in sites:
            raise HarnessError(f"C17: no `if ...: warnings.warn(..., RuntimeWarning)` site found in unyt_array.{must}")
    model = dict(large=large, sites=sites, delegates=delegates, fns=set(fns))
    _source_cache[path] = model
    return model


CONVERTERS = ("in_units", "convert_to_units", "in_base", "convert_to_base", "to", "to_value")


def site_of(model, route, depth=0):
    """the warning site that governs a route: its own, or that of the conversion routine it delegates to; None = never warns"""
    if route not in model["fns"]:
        raise HarnessError(f"C17: unyt_array.{route} not found")
    if route in model["sites"]:
        return model["sites"][route]
    if depth > 3:
        return None
    for callee in model["delegates"][route]:
        if callee in CONVERTERS and callee != route:
            s = site_of(model, callee, depth + 1)
            if s is not None:
                return s
    return None


class _Data:
    """marker: the integer payload inside the source expression"""


class WarnModel:
    """evaluates the source's warning condition over a bit-vector v of a given integer dtype"""
    W = 80  # comparison width: wide enough for any 64-bit value and any table constant we accept

    def __init__(self, model, site, dtype):
        self.model, self.site = model, site
        self.dt = DT(dtype)
        self.bits = 8 * self.dt.itemsize
        self.signed = self.dt.kind == "i"

    def wide(self, bv):
        return z3.SignExt(self.W - self.bits, bv) if self.signed else z3.ZeroExt(self.W - self.bits, bv)

    def bad(self, node, why="unsupported expression"):
        raise HarnessError(f"C17: warning site in unyt_array.{self.site.fn}: {why}: {ast.unparse(node)}")

    def num(self, node, v):
        """-> python int | ('bv', term of self.bits) | dict"""
        if isinstance(node, ast.Constant) and isinstance(node.value, int) and not isinstance(node.value, bool):
            return node.value
        if isinstance(node, ast.Name):
            if node.id == "LARGE_INPUT":
                return self.model["large"]
            if node.id in ("values",):
                return ("bv", v)
            vals = self.site.assigns.get(node.id)
            if vals is None or len(vals) != 1:
                self.bad(node, "name without a unique assignment")
            return self.num(vals[0], v)
        if isinstance(node, ast.Attribute):
            src = ast.unparse(node)
            if node.attr == "itemsize" and src.endswith("dtype.itemsize"):
                return self.dt.itemsize
            if src in ("self.d", "self.v", "self.value", "self.ndview", "self.ndarray_view()"):
                return ("bv", v)
            self.bad(node)
        if isinstance(node, ast.UnaryOp) and isinstance(node.op, ast.USub):
            x = self.num(node.operand, v)
            return -x if isinstance(x, int) else ("bv", -x[1])
        if isinstance(node, ast.BinOp) and type(node.op) in (ast.Add, ast.Sub, ast.Mult, ast.FloorDiv, ast.Pow):
            a, b = self.num(node.left, v), self.num(node.right, v)
            if isinstance(a, int) and isinstance(b, int):  # arithmetic on sizes / table constants only
                try:
                    return {ast.Add: lambda: a + b, ast.Sub: lambda: a - b, ast.Mult: lambda: a * b,
                            ast.FloorDiv: lambda: a // b, ast.Pow: lambda: a ** b if 0 <= b <= 64 else None}[type(node.op)]()
                except ZeroDivisionError:
                    self.bad(node, "division by zero")
            self.bad(node, "arithmetic on the payload")
        if isinstance(node, ast.Call):
            fname = ast.unparse(node.func)
            args = node.args
            if fname in ("max", "min") and not node.keywords:
                xs = [self.num(a, v) for a in args]
                if not all(isinstance(x, int) for x in xs):
                    self.bad(node)
                return (max if fname == "max" else min)(xs)
            if fname == "LARGE_INPUT.get" and len(args) in (1, 2):
                k = self.num(args[0], v)
                d = self.num(args[1], v) if len(args) == 2 else None
                r = self.model["large"].get(k, d)
                if not isinstance(r, int):
                    self.bad(node, "table entry is not an integer")
                return r
            if fname in ("np.abs", "np.absolute", "abs", "np.fabs") and len(args) == 1:
                x = self.num(args[0], v)
                if isinstance(x, int):
                    return abs(x)
                if not self.signed:
                    return x
                return ("bv", z3.If(x[1] < 0, -x[1], x[1]))  # wraps at the most negative value, as NumPy does
            self.bad(node)
        self.bad(node)

    def truth(self, node, v):
        """-> z3 Bool"""
        if isinstance(node, ast.BoolOp):
            parts = [self.truth(x, v) for x in node.values]
            return z3.And(*parts) if isinstance(node.op, ast.And) else z3.Or(*parts)
        if isinstance(node, ast.UnaryOp) and isinstance(node.op, ast.Not):
            return z3.Not(self.truth(node.operand, v))
        if isinstance(node, ast.Call) and ast.unparse(node.func) in ("np.any", "np.all", "any", "all") and len(node.args) == 1:
            return self.truth(node.args[0], v)  # single-element payload
        if isinstance(node, ast.Call) and isinstance(node.func, ast.Attribute) and node.func.attr in ("any", "all") and not node.args:
            return self.truth(node.func.value, v)
        if isinstance(node, ast.Compare) and len(node.ops) == 1:
            a, b = self.num(node.left, v), self.num(node.comparators[0], v)
            A = z3.BitVecVal(a, self.W) if isinstance(a, int) else self.wide(a[1])
            B = z3.BitVecVal(b, self.W) if isinstance(b, int) else self.wide(b[1])
            for x in (a, b):
                if isinstance(x, int) and abs(x) >= 2 ** (self.W - 2):
                    self.bad(node, "constant too large")
            op = node.ops[0]
            table = {ast.Gt: lambda: A > B, ast.GtE: lambda: A >= B, ast.Lt: lambda: A < B, ast.LtE: lambda: A <= B,
                     ast.Eq: lambda: A == B, ast.NotEq: lambda: A != B}
            if type(op) not in table:
                self.bad(node)
            return table[type(op)]()
        x = self.num(node, v)
        if isinstance(x, int):
            return z3.BoolVal(bool(x))
        return x[1] != 0

    def warn(self, v):
        if self.site is None:
            return z3.BoolVal(False)
        return self.truth(self.site.test, v)


def to_fp(v, signed, fsize):
    eb, sb = FMT[fsize]
    S = z3.FPSort(eb, sb)
    return z3.fpSignedToFP(z3.RNE(), v, S) if signed else z3.fpUnsignedToFP(z3.RNE(), v, S)


def fp_overflows(v, signed, fsize):
    return z3.fpIsInf(to_fp(v, signed, fsize))


def fp_exact(v, bits, signed, fsize):
    """the float of item size fsize holds the integer v exactly (FP definition: round trip through the float)"""
    eb, sb = FMT[fsize]
    w = bits + 2  # a finite to_fp(v) is at most 2**bits in magnitude
    fp = to_fp(v, signed, fsize)
    wide = z3.SignExt(w - bits, v) if signed else z3.ZeroExt(w - bits, v)
    return z3.And(z3.Not(z3.fpIsInf(fp)), z3.Not(z3.fpIsNaN(fp)), z3.fpToSBV(z3.RTZ(), fp, z3.BitVecSort(w)) == wide)


def bv_exact(v, bits, signed, fsize):
    """independent bit-vector definition: |v| = m * 2**k with m < 2**p, and below the overflow threshold of the format"""
    eb, p = FMT[fsize]
    a = z3.If(v < 0, -v, v) if signed else v  # as an unsigned magnitude: -2**(bits-1) maps to 2**(bits-1)
    alts = []
    for k in range(bits):
        low_zero = (a & z3.BitVecVal((1 << k) - 1, bits)) == 0
        fits = z3.ULT(z3.LShR(a, k), z3.BitVecVal(1 << p, bits)) if p < bits else z3.BoolVal(True)
        alts.append(z3.And(low_zero, fits))
    emax = 2 ** (eb - 1)  # first power of two that is not finite
    in_range = z3.ULT(a, z3.BitVecVal(1 << emax, bits)) if emax < bits else z3.BoolVal(True)
    return z3.And(z3.Or(*alts), in_range)


def bv_overflows(v, bits, signed, fsize):
    """independent bit-vector definition of 'rounds to infinity': |v| >= 2**emax - 2**(emax-p-1) (half an ulp above the largest
    finite value; the tie rounds to the even neighbour, which is 2**emax)"""
    eb, p = FMT[fsize]
    emax = 2 ** (eb - 1)
    if emax >= bits + 1:
        return z3.BoolVal(False)
    a = z3.If(v < 0, -v, v) if signed else v
    t = (1 << emax) - (1 << (emax - p - 1))
    if t >= 1 << bits:
        return z3.BoolVal(False)
    return z3.UGE(a, z3.BitVecVal(t, bits))


def ground(term):
    t = z3.simplify(term)
    if z3.is_true(t):
        return True
    if z3.is_false(t):
        return False
    raise HarnessError(f"C17: term did not evaluate to a constant: {t}")


# =============================================================================================== real runs on typed arrays

class Run:
    """one call on the library with the warnings it emitted"""

    def __init__(self, outcome, value, warns):
        self.outcome, self.value, self.warns = outcome, value, warns

    @property
    def ok(self):
        return self.outcome == "ok"

    @property
    def runtime_warned(self):
        return any(issubclass(c, RuntimeWarning) for c, _ in self.warns)

    @property
    def unyt_warned(self):
        return any(issubclass(c, RuntimeWarning) and UNYT_WARNING_TEXT in m for c, m in self.warns)

    @property
    def cast_overflow_warned(self):
        return any(issubclass(c, RuntimeWarning) and "overflow" in m and UNYT_WARNING_TEXT not in m for c, m in self.warns)


def run(fn, *a, **k):
    with warnings.catch_warnings(record=True) as w:
        warnings.simplefilter("always")
        out, val = call(fn, *a, **k)
    return Run(out, val, [(x.category, str(x.message)) for x in w])


COPY_ROUTES = ("in_units", "to", "to_value", "in_base")
INPLACE_ROUTES = ("convert_to_units", "convert_to_base")
ROUTES = COPY_ROUTES + INPLACE_ROUTES
PARTNER = {"convert_to_units": "in_units", "convert_to_base": "in_base"}


def do_route(q, route, target, system="mks"):
    """apply a conversion route; in-place routes work on a copy that is returned"""
    if route == "in_units":
        return q.in_units(target)
    if route == "to":
        return q.to(target)
    if route == "to_value":
        return q.to_value(target)
    if route == "in_base":
        return q.in_base(system)
    if route == "convert_to_units":
        c = q.copy()
        c.convert_to_units(target)
        return c
    if route == "convert_to_base":
        c = q.copy()
        c.convert_to_base(system)
        return c
    raise KeyError(route)


def data_of(r):
    return np.asarray(r.d if hasattr(r, "units") else r)


def signed_value(u, dt):
    dt = DT(dt)
    bits = 8 * dt.itemsize
    u &= (1 << bits) - 1
    return u - (1 << bits) if dt.kind == "i" and u >= 1 << (bits - 1) else u


def probes(dt, large_table):
    """boundary integers of a dtype at which the formula is compared with the executed code"""
    ii = np.iinfo(dt)
    c = {0, 1, ii.max, ii.max - 1, ii.min, ii.min + 1 if ii.min else 2}
    for p in (11, 24, 53):
        for d in (-1, 0, 1, 2, 3):
            c |= {2 ** p + d, -(2 ** p + d)}
    for L in large_table.values():
        if isinstance(L, int):
            c |= {L - 1, L, L + 1, -L, -L + 1, -L - 1}
    c |= {65503, 65504, 65519, 65520, 65535, -65519, -65520, 4095, 4097, -4097}
    return sorted(x for x in c if ii.min <= x <= ii.max)


def make_threshold_case(route, dt):
    """(a): for all integers v of dtype dt: the target float of this route cannot hold v  =>  a RuntimeWarning is due"""
    dtype = DT(dt)
    bits, signed = 8 * dtype.itemsize, dtype.kind == "i"

    # a conversion of factor exactly 1, so that the only change a value can suffer is the cast to the float type
    unit = "m" if route in ("in_base", "convert_to_base") else "km"

    def convert(ctx, value):
        q = ctx.mods["unyt"].unyt_array(np.array([value], dtype=dtype), unit)
        return run(do_route, q, route, unit, "mks")

    def h(ctx):
        model = read_source_model()
        loaded = getattr(ctx.mods["UA"], "LARGE_INPUT", None)
        if loaded != model["large"]:
            raise HarnessError(f"C17: LARGE_INPUT of the loaded module {loaded} differs from the source literal {model['large']}")
        wm = WarnModel(model, site_of(model, route), dtype)
        first = convert(ctx, 1)
        if not first.ok:
            # no float type for this width on this route: raising is what the property allows for 1-byte data only
            ctx.require("raises only when no float of the item size exists", dtype.itemsize == 1, exc=repr(first.value))
            ctx.observe("outcome", "raise")
            return
        tgt = data_of(first.value).dtype
        ctx.observe("target", str(tgt))
        if not ctx.require("target is a binary float", tgt.kind == "f" and tgt.itemsize in FMT, target=str(tgt)):
            return
        fs = tgt.itemsize

        def formula(v):
            # bit-vector forms of 'exactly representable' / 'rounds to infinity'; C17/encoding/* proves them equivalent to the
            # IEEE (z3 FloatingPoint) definitions for every v of every width (the FP form of this query is 100x slower at 64 bit)
            return z3.Implies(z3.Not(bv_exact(v, bits, signed, fs)), z3.Or(wm.warn(v), bv_overflows(v, bits, signed, fs)))

        # the formula's ingredients agree with the executed code at the boundary integers (every run, every mode)
        P = z3.BitVec("c17_probe", bits)
        templ = dict(warn=wm.warn(P), fp_inf=fp_overflows(P, signed, fs), bv_inf=bv_overflows(P, bits, signed, fs),
                     fp_exact=fp_exact(P, bits, signed, fs), bv_exact=bv_exact(P, bits, signed, fs))
        for p in probes(dtype, model["large"]):
            at = {k: ground(z3.substitute(t, (P, z3.BitVecVal(p, bits)))) for k, t in templ.items()}
            r = convert(ctx, p)
            if not r.ok:
                raise HarnessError(f"C17: {route} on {dt} value {p} raised {r.value!r} after succeeding on 1")
            got = data_of(r.value)
            if got.dtype != tgt:
                raise HarnessError(f"C17: {route} on {dt}: target dtype depends on the value ({tgt} vs {got.dtype})")
            f = float(got.ravel()[0])
            changed = not (math.isfinite(f) and Fraction(f) == p)
            facts = dict(unyt_warning=(r.unyt_warned, at["warn"]),
                         cast_overflow_warning=(r.cast_overflow_warned, at["fp_inf"]),
                         cast_overflow_warning_bv=(r.cast_overflow_warned, at["bv_inf"]),
                         value_changed=(changed, not at["fp_exact"]),
                         value_changed_bv=(changed, not at["bv_exact"]))
            for k, (real, mod) in facts.items():
                if real != mod:
                    raise HarnessError(f"C17: model of {route} on {dt} disagrees with the executed code at v={p}: {k} executed={real} model={mod}")
        dflt = model["large"].get(fs) or (2 ** FMT[fs][1] + 1)
        if dflt > np.iinfo(dtype).max:
            dflt = int(np.iinfo(dtype).max)
        v = ctx.zconst("c17_v", z3.BitVecSort(bits), dflt)
        if z3.is_expr(v):
            ctx.require(WARN_LABEL, SymBool(formula(v)), route=route, dtype=dt, target=str(tgt))
        else:
            val = signed_value(int(v), dtype)
            r = convert(ctx, val)
            got = data_of(r.value) if r.ok else None
            f = float(got.ravel()[0]) if r.ok else float("nan")
            changed = not (math.isfinite(f) and Fraction(f) == val)
            ctx.require(WARN_LABEL, r.ok and (not changed or r.runtime_warned), route=route, dtype=dt, value=val,
                        result=repr(got), warnings=[m for _, m in r.warns if "deprecated" not in m])

    return Case(f"C17/threshold/{route}/{dt}", h, bounds=f"every {dt} value (bit-vector symbol)", oblig_timeout_ms=180000, weight=bits)


def make_encoding_case(dt, fs):
    """the FP round-trip definition of 'the float holds v exactly' equals the independent bit-vector one, for every v"""
    dtype = DT(dt)
    bits, signed = 8 * dtype.itemsize, dtype.kind == "i"

    def h(ctx):
        dflt = min(2 ** FMT[fs][1] + 1, int(np.iinfo(dtype).max))
        v = ctx.zconst("c17_v", z3.BitVecSort(bits), dflt)
        if z3.is_expr(v):
            ctx.require("FP and BV definitions of exact representability agree",
                        SymBool(fp_exact(v, bits, signed, fs) == bv_exact(v, bits, signed, fs)))
            ctx.require("FP and BV definitions of overflow to infinity agree",
                        SymBool(fp_overflows(v, signed, fs) == bv_overflows(v, bits, signed, fs)))
        else:
            val = signed_value(int(v), dtype)
            with warnings.catch_warnings():
                warnings.simplefilter("ignore")
                f = float(np.array([val], dtype=dtype).astype("f" + str(fs))[0])
            exact = math.isfinite(f) and Fraction(f) == val
            pv = z3.BitVecVal(val, bits)
            ctx.require("FP and BV definitions of exact representability agree",
                        ground(fp_exact(pv, bits, signed, fs)) == exact and ground(bv_exact(pv, bits, signed, fs)) == exact)
            ctx.require("FP and BV definitions of overflow to infinity agree",
                        ground(fp_overflows(pv, signed, fs)) == math.isinf(f) and ground(bv_overflows(pv, bits, signed, fs)) == math.isinf(f))

    return Case(f"C17/encoding/{dt}-f{fs}", h, bounds="every value of the dtype", oblig_timeout_ms=300000, weight=bits)



# =============================================================================================== (b) dtype x route map

def want_float(dt):
    """the property's target type: float of the input's item size (at least 16 bit); floats and complex keep their dtype"""
    dt = DT(dt)
    if dt.kind in "ui":
        return np.dtype("f" + str(max(2, dt.itemsize)))
    return dt.newbyteorder("=")


def real_float(dt):
    """the real floating type underlying a float/complex dtype"""
    dt = DT(dt)
    return np.dtype("f" + str(dt.itemsize // 2)) if dt.kind == "c" else dt.newbyteorder("=")


def narrowest(*dts):
    return min((real_float(want_float(d)) for d in dts), key=lambda d: d.itemsize)


def sym_tol(*dts):
    """band of the symbolic value obligations: 1e-6, widened to 8 ulp of the narrowest float the data passes through, so that
    every model is a deviation the concrete replay (a few ulp of that type) also sees"""
    return max(Fraction(1, 10 ** 6), Fraction(8 * float(np.finfo(narrowest(*dts)).eps)))


def int_values(dt, large_table):
    ii = np.iinfo(dt)
    c = [0, 1, -1, 3, 50, 125, 500, 1500, ii.max, ii.min]
    for p in (11, 24, 53):
        c += [2 ** p, 2 ** p + 1]
    for L in large_table.values():
        c += [L - 1, L]
    out = []
    for x in c:
        if ii.min <= x <= ii.max and x not in out:
            out.append(x)
    return out


def route_values(dt, large_table):
    dt = DT(dt)
    if dt.kind in "ui":
        return int_values(dt, large_table)
    if dt.kind == "f":
        fi = np.finfo(dt)
        return [0.0, 1.0, -1.5, 0.25, 500.0, 1500.0, float(fi.max) / 4, -float(fi.max), float(fi.tiny) * 8]
    return [0j, 1 + 2j, -0.5 + 0.25j, 500 - 1500j, 3j, 125 + 0j]


def exact(v):
    """python number -> Fraction or (Fraction, Fraction)"""
    if isinstance(v, complex):
        return (Fraction(v.real), Fraction(v.imag))
    return Fraction(v)


def near(r, e, fdt, ulps=8, source=None):
    """r (python float) is the exact rational e rounded to float type fdt, up to a few ulp. Overflow to inf (of the result,
    or of the integer `source` itself when it is first cast to that float type) and underflow towards 0 count as rounding:
    IEEE values are outside the claim, truncation to integers is not"""
    fi = np.finfo(fdt)
    eps, fmax = float(fi.eps), float(fi.max)
    limit = Fraction(fmax) * (1 - Fraction(ulps) * Fraction(eps))
    if math.isinf(r):
        big = abs(e) >= limit or (source is not None and abs(Fraction(source)) >= limit)
        return big and (r > 0) == (e > 0)
    if math.isnan(r):
        return False
    if abs(e) >= Fraction(10) ** 300:
        return abs(Fraction(r) - e) <= Fraction(ulps) * Fraction(eps) * abs(e)
    e = float(e)
    return abs(r - e) <= ulps * eps * abs(e) + 4 * float(fi.smallest_subnormal)


def vclose(r, e, fdt, band=0.0, source=None):
    """concrete runs: r is the exact value e (Fraction, or a pair for complex) rounded to float type fdt up to a few ulp
    (plus a few ulp of `band`, the operand magnitudes of a sum)"""
    if isinstance(e, tuple) or isinstance(r, complex):
        er, ei = e if isinstance(e, tuple) else (e, Fraction(0))
        r = complex(r)
        sr, si = (source.real, source.imag) if isinstance(source, complex) else (source, source)
        return vclose(r.real, er, fdt, band, sr) and vclose(r.imag, ei, fdt, band, si)
    r = float(r)
    if near(r, e, fdt, source=source):
        return True
    return bool(band) and math.isfinite(r) and abs(r - float(e)) <= 8 * float(np.finfo(fdt).eps) * float(band)


def same_num(x, y, fdt):
    """two results of the same conversion agree up to a few ulp of the narrowest float involved (one of them may have
    overflowed in that narrow type)"""
    x, y = complex(x), complex(y)
    fi = np.finfo(fdt)

    def one(u, v):
        if u == v or (math.isnan(u) and math.isnan(v)):
            return True
        if math.isnan(u) or math.isnan(v):
            return False
        if math.isinf(u) or math.isinf(v):
            return True  # overflow of the narrow route; whether inf is due is judged by the per-route value obligation
        return abs(u - v) <= 8 * float(fi.eps) * (abs(u) + abs(v)) + 4 * float(fi.smallest_subnormal)
    return one(x.real, y.real) and one(x.imag, y.imag)


def py(x):
    """numpy scalar -> python number"""
    return x.item() if isinstance(x, np.generic) else x


def typed(ctx, values, dt, unit, reg=None, scalar=False):
    unyt = ctx.mods["unyt"]
    dt = DT(dt)
    if scalar:
        # a NumPy scalar has no byte order of its own: the other byte order is handed over as a 0-d array
        v0 = np.array(values[0], dtype=dt) if dt != dt.newbyteorder("=") else dt.type(values[0])
        return unyt.unyt_quantity(v0, unit, registry=reg)
    return unyt.unyt_array(np.array(values, dtype=dt), unit, registry=reg)


class CastLog:
    """records every dtype the library requests through its `np` (symx NpShim); empty on the plain library"""

    def __enter__(self):
        NpShim.cast_log = []
        self.entries = NpShim.cast_log
        return self

    def __exit__(self, *a):
        NpShim.cast_log = None

    def requested(self, what=("asarray", "dtype")):
        return [np.dtype(d) for w, d in self.entries if w in what]


def symbolic_result(r):
    return r is not None and data_of(r).dtype == object


def sym_pair(ctx):
    """two harness length units with symbolic positive scales, clearly different (not within unyt's 1e-9 'same unit' band)"""
    D = ctx.mods["unyt"].dimensions
    reg = ctx.registry([])
    sa = ctx.real("xa_s", pos=True)
    sb = ctx.real("xb_s", pos=True)
    ctx.add_row(reg, "xa", D.length, sa)
    ctx.add_row(reg, "xb", D.length, sb)
    ctx.assume(Or(sa > sb * 1.001, sb > sa * 1.001))
    return reg, sa, sb


TABLE = [("m", "km", Fraction(1, 1000)), ("km", "m", Fraction(1000))]


def mul(e, f):
    return (e[0] * f, e[1] * f) if isinstance(e, tuple) else e * f


def check_converted(ctx, r, values, factor, dt, want, copy, **info):
    """dtype and value obligations on one converted result (typed run)"""
    d = data_of(r)
    kind_ok = d.dtype.kind == ("c" if DT(dt).kind == "c" else "f")
    who = "copy route" if copy else "in-place route"
    ctx.require(f"{who}: floating point, complex stays complex", kind_ok, dtype=str(d.dtype), **info)
    ctx.require(f"{who}: float of the input's item size", same_type(d.dtype, want), dtype=str(d.dtype), want=str(want), **info)
    if kind_ok:
        fdt = narrowest(dt, d.dtype)
        got = [py(x) for x in d.ravel()]
        bad = [(v, g) for v, g in zip(values, got) if not vclose(g, mul(exact(v), factor), fdt, source=v)]
        ctx.require(f"{who}: values converted, not truncated", not bad and len(got) == len(values), bad=bad[:3], **info)
    return d.dtype


def make_route_case(route, dt):
    dtype = DT(dt)
    want = want_float(dtype)
    inplace = route in INPLACE_ROUTES
    base = route in ("in_base", "convert_to_base")

    def h(ctx):
        model = read_source_model()
        for scalar in (False, True):
            if scalar:
                values = {"u": [125], "i": [125], "f": [1500.0], "c": [500 - 1500j]}[dtype.kind]
            else:
                values = route_values(dtype, model["large"])
            held = [py(v) for v in np.array(values, dtype=dtype)]
            shape = "scalar" if scalar else "array"
            # ---- concrete table units: dtype, values, copy/in-place agreement
            for src, dst, factor in TABLE:
                if base and src != "km":
                    continue  # mks base of a length is the metre
                info = dict(variant=f"{shape} {src}->{dst}")
                q = typed(ctx, values, dtype, src, scalar=scalar)
                r = run(do_route, q, route, dst, "mks")
                ctx.observe(f"{shape} {src} outcome", r.outcome if r.ok else "raise:" + type(r.value).__name__)
                if not r.ok:
                    ctx.require("raises only when no float of the item size exists", inplace and dtype.itemsize == 1 and dtype.kind in "ui",
                                exc=repr(r.value)[:200], **info)
                    continue
                if route == "to_value" and scalar:
                    ctx.require("to_value of a quantity is a python number", isinstance(r.value, (float, complex)), type=type(r.value).__name__)
                    ctx.require("copy route: values converted, not truncated", vclose(r.value, mul(exact(held[0]), factor), narrowest(dtype)), **info)
                    continue
                got_dt = check_converted(ctx, r.value, held, factor, dtype, want, not inplace, **info)
                ctx.observe(f"{shape} {src} dtype", str(got_dt))
                if not inplace:
                    ctx.require("input untouched by the copy route", q.dtype == dtype and str(q.units) == src
                                and np.array_equal(np.asarray(q.d).ravel(), np.array(values, dtype=dtype)), **info)
                else:
                    rc = run(do_route, q, PARTNER[route], dst, "mks")
                    if rc.ok:
                        dc = data_of(rc.value)
                        ctx.require("copy and in-place routes agree on dtype", same_type(dc.dtype, got_dt), copy=str(dc.dtype), inplace=str(got_dt), **info)
                        fdt = narrowest(dtype, dc.dtype, got_dt)
                        a, b = [py(x) for x in dc.ravel()], [py(x) for x in data_of(r.value).ravel()]
                        same = len(a) == len(b) and all(same_num(x, y, fdt) for x, y in zip(a, b))
                        ctx.require("copy and in-place routes agree on values", same, copy=a[:4], inplace=b[:4], **info)
                    else:
                        ctx.require("copy route works where the in-place route works", False, exc=repr(rc.value)[:200], **info)
            # ---- symbolic unit scales (copy routes, real typed payload): values for ALL scales, requested dtype from the cast log
            if inplace or dtype.kind == "c":
                continue
            reg, sa, sb = sym_pair(ctx)
            q = typed(ctx, values, dtype, "xa", reg, scalar=scalar)
            with CastLog() as log:
                r = run(do_route, q, route, "xb", "mks")
            if not r.ok:
                ctx.require("symbolic scales: conversion succeeds", False, exc=repr(r.value)[:200], variant=shape)
                continue
            d = data_of(r.value)
            got = elements(d)
            if symbolic_result(r.value):
                # SI form of the oracle: the result read in its unit is the input read in its unit (mks base of a length: scale 1)
                ok = And(len(got) == len(held), *[close(g * (1 if base else sb), sa * v, tol=sym_tol(dtype)) for g, v in zip(got, held)])
            else:
                fdt = narrowest(dtype, d.dtype) if d.dtype.kind == "f" else np.dtype("f8")
                fx = Fraction(sa) if base else Fraction(sa) / Fraction(sb)
                ok = len(got) == len(held) and all(vclose(g, Fraction(v) * fx, fdt, source=v) for g, v in zip(got, held))
            ctx.require("symbolic scales: values are v*s_from/s_to for all scales", ok, variant=shape)
            if route in ("in_units", "to", "to_value") and not (scalar and route == "to_value"):
                if symbolic_result(r.value):
                    req = log.requested(("asarray",))
                    ctx.require("symbolic scales: requested float type has the input's item size", bool(req) and req[-1] == want,
                                requested=[str(x) for x in req], variant=shape)
                else:
                    ctx.require("symbolic scales: requested float type has the input's item size", same_type(d.dtype, want), dtype=str(d.dtype), variant=shape)

    return Case(f"C17/route/{route}/{dt}", h, bounds="symbolic: unit scales (copy routes); concrete: dtype, boundary values, table units")


# ----------------------------------------------------------------------------------------------- equivalence routes (concrete)

KEV_TO_K = Fraction(1602176634, 10 ** 25) / Fraction(1380649, 10 ** 29)  # E/k_B, SI 2019 exact constants
EQUIV = {"thermal": ("keV", "K"), "spectral": ("km", "Hz")}


def make_equiv_case(dt):
    dtype = DT(dt)
    want = want_float(dtype)

    def h(ctx):
        for name, (src, dst) in EQUIV.items():
            values = [1, 2, 3] if dtype.kind != "c" else [1 + 0j, 2 + 0j, 3 + 0j]
            q = typed(ctx, values, dtype, src)
            rc = run(lambda: q.to(dst, equivalence=name))
            c = q.copy()
            ri = run(lambda: c.convert_to_units(dst, equivalence=name))
            for who, r, res in (("copy route", rc, rc.value), ("in-place route", ri, c)):
                ctx.observe(f"{name} {who}", r.outcome if r.ok else "raise:" + type(r.value).__name__)
                if not r.ok:
                    ctx.require(f"{who}: raises only when no float of the item size exists", dtype.itemsize == 1 and dtype.kind in "ui",
                                exc=repr(r.value)[:200], equivalence=name)
                    continue
                d = data_of(res)
                ctx.observe(f"{name} {who} dtype", str(d.dtype))
                ctx.require(f"{who}: floating point, complex stays complex", d.dtype.kind == ("c" if dtype.kind == "c" else "f"),
                            dtype=str(d.dtype), equivalence=name)
                ctx.require(f"{who}: float of the input's item size", same_type(d.dtype, want), dtype=str(d.dtype), want=str(want), equivalence=name)
                if real_float(d.dtype).itemsize >= 4 and d.dtype.kind in "fc":
                    exp = [float(KEV_TO_K * v) if name == "thermal" else 299792458.0 / (1000.0 * v) for v in (1, 2, 3)]
                    got = [complex(py(x)).real for x in d.ravel()]
                    ctx.require(f"{who}: values converted, not truncated", all(abs(g - e) <= 1e-4 * abs(e) for g, e in zip(got, exp)),
                                got=got, equivalence=name)
            if rc.ok and ri.ok:
                ctx.require("copy and in-place routes agree on dtype", same_type(data_of(rc.value).dtype, data_of(c).dtype),
                            copy=str(data_of(rc.value).dtype), inplace=str(data_of(c).dtype), equivalence=name)

    return Case(f"C17/equivalence/{dt}", h, bounds="concrete: keV->K (thermal), km->Hz (spectral), values 1,2,3")


# ----------------------------------------------------------------------------------------------- equivalence x direction x call form
#
# An equivalence is not one conversion but a table of DIRECTIONS (source dimension -> target dimension), each with its own line of
# code (multiply, divide, reciprocal, power, root) that is handed the raw - possibly integer - data before any float type has been
# chosen. Every registered equivalence is walked in every direction, through every call form that accepts an equivalence (copying
# and in-place; equivalence named positionally and by keyword; array and scalar), for every dtype. The oracles are the physical
# formulas written here with constants written here (CODATA values to 4+ digits: the band is 2e-3, truncation is a far larger error).

C_LIGHT, H_PLANCK, K_BOLTZ, EV = 299792458.0, 6.62607e-34, 1.380649e-23, 1.602177e-19
M_H, G_NEWTON, SIGMA_SB = 1.6737352e-27, 6.67408e-11, 5.670373e-8  # mass of the hydrogen atom (unyt's `mh`), G, Stefan-Boltzmann
AMU, M_SUN, M_E = 1.660539e-27, 1.98841586e30, 9.1093836e-31
MU, GAMMA = 0.6, 5.0 / 3.0  # defaults of number_density / sound_speed

# (equivalence, direction, source unit, target unit, image of the held number v in the target unit, keyword arguments)
EQ_ROWS = [
    ("spectral", "length->rate", "km", "Hz", lambda v: C_LIGHT / (1e3 * v), {}),
    ("spectral", "length->energy", "nm", "eV", lambda v: H_PLANCK * C_LIGHT / (1e-9 * v) / EV, {}),
    ("spectral", "length->spatial_frequency", "m", "1/km", lambda v: 1e3 / v, {}),
    ("spectral", "rate->length", "MHz", "m", lambda v: C_LIGHT / (1e6 * v), {}),
    ("spectral", "rate->energy", "THz", "eV", lambda v: H_PLANCK * 1e12 * v / EV, {}),
    ("spectral", "rate->spatial_frequency", "GHz", "1/m", lambda v: 1e9 * v / C_LIGHT, {}),
    ("spectral", "energy->length", "eV", "nm", lambda v: H_PLANCK * C_LIGHT / (v * EV) * 1e9, {}),
    ("spectral", "energy->rate", "eV", "THz", lambda v: v * EV / H_PLANCK / 1e12, {}),
    ("spectral", "energy->spatial_frequency", "eV", "1/cm", lambda v: v * EV / (H_PLANCK * C_LIGHT) / 100, {}),
    ("spectral", "spatial_frequency->length", "1/cm", "um", lambda v: 1e4 / v, {}),
    ("spectral", "spatial_frequency->rate", "1/cm", "GHz", lambda v: 100 * v * C_LIGHT / 1e9, {}),
    ("spectral", "spatial_frequency->energy", "1/cm", "eV", lambda v: 100 * v * H_PLANCK * C_LIGHT / EV, {}),
    ("thermal", "energy->temperature", "keV", "K", lambda v: v * 1e3 * EV / K_BOLTZ, {}),
    ("thermal", "temperature->energy", "MK", "keV", lambda v: v * 1e6 * K_BOLTZ / EV / 1e3, {}),
    ("mass_energy", "mass->energy", "g", "erg", lambda v: v * 1e-3 * C_LIGHT ** 2 * 1e7, {}),
    ("mass_energy", "energy->mass", "MeV", "amu", lambda v: v * 1e6 * EV / C_LIGHT ** 2 / AMU, {}),
    ("number_density", "density->number_density", "g/cm**3", "cm**-3", lambda v: v / (MU * M_H * 1e3), {}),
    ("number_density", "number_density->density", "cm**-3", "g/cm**3", lambda v: v * MU * M_H * 1e3, {}),
    ("number_density", "density->number_density(mu)", "g/cm**3", "cm**-3", lambda v: v / (2.0 * M_H * 1e3), {"mu": 2.0}),
    ("schwarzschild", "mass->length", "Msun", "km", lambda v: 2 * G_NEWTON * v * M_SUN / C_LIGHT ** 2 / 1e3, {}),
    ("schwarzschild", "length->mass", "km", "Msun", lambda v: v * 1e3 * C_LIGHT ** 2 / (2 * G_NEWTON) / M_SUN, {}),
    ("compton", "mass->length", "me", "pm", lambda v: H_PLANCK / (C_LIGHT * v * M_E) * 1e12, {}),
    ("compton", "length->mass", "pm", "me", lambda v: H_PLANCK / (C_LIGHT * v * 1e-12) / M_E, {}),
    ("lorentz", "velocity->dimensionless", "Mm/s", "dimensionless", lambda v: 1 / math.sqrt(1 - (v * 1e6 / C_LIGHT) ** 2), {}),
    ("lorentz", "dimensionless->velocity", "dimensionless", "km/s", lambda v: C_LIGHT * math.sqrt(1 - 1 / v ** 2) / 1e3, {}),
    ("sound_speed", "temperature->velocity", "K", "km/s", lambda v: math.sqrt(K_BOLTZ * GAMMA * v / (MU * M_H)) / 1e3, {}),
    ("sound_speed", "velocity->temperature", "km/s", "K", lambda v: (v * 1e3) ** 2 * MU * M_H / GAMMA / K_BOLTZ, {}),
    ("sound_speed", "energy->velocity", "keV", "km/s", lambda v: math.sqrt(GAMMA * v * 1e3 * EV / (MU * M_H)) / 1e3, {}),
    ("sound_speed", "velocity->energy", "km/s", "keV", lambda v: (v * 1e3) ** 2 * MU * M_H / GAMMA / EV / 1e3, {}),
    ("sound_speed", "temperature->energy", "K", "eV", lambda v: v * K_BOLTZ / EV, {}),
    ("sound_speed", "energy->temperature", "eV", "K", lambda v: v * EV / K_BOLTZ, {}),
    ("sound_speed", "velocity->temperature(mu,gamma)", "km/s", "K", lambda v: (v * 1e3) ** 2 * 1.2 * M_H / 1.4 / K_BOLTZ, {"mu": 1.2, "gamma": 1.4}),
    ("effective_temperature", "temperature->flux", "K", "W/m**2", lambda v: SIGMA_SB * v ** 4, {}),
    ("effective_temperature", "flux->temperature", "W/m**2", "K", lambda v: (v / SIGMA_SB) ** 0.25, {}),
]
# directions whose code raises the data to a power before a float type is involved: (row direction -> power)
EQ_POWERS = {"velocity->temperature": 2, "velocity->energy": 2, "velocity->temperature(mu,gamma)": 2, "temperature->flux": 4,
             "dimensionless->velocity": 2}
EQ_COPY_FORMS = ("to", "to-keyword", "in_units", "to_value", "to_equivalent")
EQ_INPLACE_FORMS = ("convert_to_units", "convert_to_units-keyword", "convert_to_equivalent")
L_EQ_WRAP = "copy route: powers of the data are taken in floating point (no integer wrap-around)"


def registered_equivalences(mods):
    return list(mods["UE"].equivalence_registry)


def eq_do(q, form, dst, eq, kw):
    """one call form of one equivalence conversion; in-place forms work on a copy that is returned"""
    if form == "to":
        return q.to(dst, eq, **kw)
    if form == "to-keyword":
        return q.to(dst, equivalence=eq, **kw)
    if form == "in_units":
        return q.in_units(dst, equivalence=eq, **kw)
    if form == "to_value":
        return q.to_value(dst, equivalence=eq, **kw)
    if form == "to_equivalent":
        return q.to_equivalent(dst, eq, **kw)
    c = q.copy()
    if form == "convert_to_units":
        c.convert_to_units(dst, eq, **kw)
    elif form == "convert_to_units-keyword":
        c.convert_to_units(dst, equivalence=eq, **kw)
    elif form == "convert_to_equivalent":
        c.convert_to_equivalent(dst, eq, **kw)
    else:
        raise KeyError(form)
    return c


def eq_values(dtype, direction):
    """small values whose images are fractional (truncation shows), and - for directions that take a power - values whose
    power leaves the integer type"""
    dtype = DT(dtype)
    if direction == "dimensionless->velocity":
        small = [2, 3, 7, 100]  # Lorentz factors
    elif direction == "velocity->dimensionless":
        small = [100, 120, 125, 2]  # Mm/s, below c
    else:
        small = [2, 3, 7, 100]
    big = []
    p = EQ_POWERS.get(direction)
    if p and dtype.kind in "ui":
        top = int(np.iinfo(dtype).max)
        b = int(round(top ** (1.0 / p))) + 2
        while b ** p <= top:
            b += 1
        if b <= top:
            big = [b, b + 1]
        # a small value whose power already leaves the type (100**2 in one byte) belongs to the wrap-around obligation
        big = [v for v in small if v ** p > top] + big
        small = [v for v in small if v ** p <= top]
    if dtype.kind == "c":
        small = [complex(v) for v in small]
    return small, big


def eq_close(g, e, fdt):
    """g (python float/complex) is the image e up to the band (2e-3, or 16 ulp of float type fdt). A non-finite result in a
    type narrower than 8 bytes is IEEE range (the constants of the formulas - h, k_B, c**2 - leave float16/float32 in
    intermediate steps; overflow is outside the claim), and so is a zero in a 2-byte float."""
    g = complex(g)
    narrow = np.dtype(fdt).itemsize < 8
    if not (math.isfinite(g.real) and math.isfinite(g.imag)):
        return narrow
    band = max(2e-3, 16 * float(np.finfo(fdt).eps))
    if abs(g - e) <= band * abs(e):
        return True
    return np.dtype(fdt).itemsize == 2 and g == 0


def make_equiv_dir_case(row, dt):
    eq, direction, src, dst, image, kw = row
    dtype = DT(dt)
    want = want_float(dtype)
    one_byte_int = dtype.itemsize == 1 and dtype.kind in "ui"

    def h(ctx):
        unyt = ctx.mods["unyt"]
        if eq not in registered_equivalences(ctx.mods):
            ctx.require("equivalence is registered", False, equivalence=eq)
            return
        small, big = eq_values(dtype, direction)
        for scalar in (False, True):
            values = small[:1] if scalar else small + big
            held = held_of(values, dtype)
            nsmall = 1 if scalar else len(small)
            results = {}
            for form in EQ_COPY_FORMS + EQ_INPLACE_FORMS:
                inplace = form in EQ_INPLACE_FORMS
                who = "in-place route" if inplace else "copy route"
                info = dict(equivalence=eq, variant=f"{'scalar' if scalar else 'array'} {src}->{dst} via {form}")
                q = typed(ctx, values, dtype, src, scalar=scalar)
                r = run(eq_do, q, form, dst, eq, kw)
                ctx.observe(info["variant"], r.outcome if r.ok else "raise:" + type(r.value).__name__)
                if not r.ok:
                    ctx.require(f"{who}: raises only when no float of the item size exists", inplace and one_byte_int, exc=repr(r.value)[:200], **info)
                    continue
                if form == "to_value" and scalar:
                    ctx.require("to_value of a quantity is a python number", isinstance(r.value, (float, complex)), type=type(r.value).__name__, **info)
                    ctx.require("copy route: values converted, not truncated", eq_close(r.value, image(complex(held[0]).real), np.dtype("f8")), got=r.value, **info)
                    continue
                d = data_of(r.value)
                kind_ok = d.dtype.kind == ("c" if dtype.kind == "c" else "f")
                ctx.require(f"{who}: floating point, complex stays complex", kind_ok, dtype=str(d.dtype), **info)
                ctx.require(f"{who}: float of the input's item size", same_type(d.dtype, want), dtype=str(d.dtype), want=str(want), **info)
                got = [py(x) for x in d.ravel()]
                if kind_ok:
                    fdt = real_float(d.dtype)
                    exp = [image(complex(v).real) for v in held]
                    bad = [(v, g) for v, g, e in list(zip(held, got, exp))[:nsmall] if not eq_close(g, e, fdt)]
                    ctx.require(f"{who}: values converted, not truncated", not bad and len(got) == len(held), bad=bad[:3], **info)
                    wrapped = [(v, g) for v, g, e in list(zip(held, got, exp))[nsmall:] if not eq_close(g, e, fdt)]
                    if big and not scalar:
                        ctx.require(L_EQ_WRAP if not inplace else "in-place route: powers of the data are taken in floating point (no integer wrap-around)",
                                    not wrapped, bad=wrapped[:3], **info)
                if form != "to_value":
                    ctx.require("result carries the target unit", str(r.value.units) == str(unyt.Unit(dst)), unit=str(r.value.units), **info)
                if not inplace:
                    ctx.require("input untouched by the copy route", q.dtype == dtype and np.array_equal(
                        np.asarray(q.d).ravel(), np.array(values, dtype=dtype)) and str(q.units) == str(unyt.Unit(src)), **info)
                results[form] = (d.dtype, got)
            # the copying and the in-place forms agree with each other
            if "to" in results:
                cd, cg = results["to"]
                for form in EQ_INPLACE_FORMS:
                    if form not in results:
                        continue
                    idt, ig = results[form]
                    info = dict(equivalence=eq, variant=f"{'scalar' if scalar else 'array'} {src}->{dst} to vs {form}")
                    ctx.require("copy and in-place routes agree on dtype", same_type(cd, idt), copy=str(cd), inplace=str(idt), **info)
                    fdt = min(real_float(cd), real_float(idt), key=lambda t: t.itemsize) if cd.kind in "fc" and idt.kind in "fc" else np.dtype("f8")
                    same = len(cg) == len(ig) and all(eq_close(b, complex(a), fdt) or eq_close(a, complex(b), fdt)
                                                      for a, b in list(zip(cg, ig))[:nsmall])
                    ctx.require("copy and in-place routes agree on values", same, copy=cg[:4], inplace=ig[:4], **info)
                for form in EQ_COPY_FORMS:
                    if form in results and form != "to":
                        fd, fg = results[form]
                        ctx.require("copy forms agree with each other", fd == cd and len(fg) == len(cg) and all(
                            same_num(a, b, real_float(cd) if cd.kind in "fc" else np.dtype("f8")) for a, b in zip(fg, cg)),
                            form=form, equivalence=eq, variant=f"{'scalar' if scalar else 'array'} {src}->{dst}")
        # ---- symbolic unit scales (copy forms, real typed payload, directions that are one multiply/divide): the target is a
        # harness unit of the target dimension whose scale is a z3 real; where the direction involves no physical constant (the
        # constants carry table units, and a product in which a symbolic scale meets a table unit of the same dimension cannot be
        # cancelled by sympy) the source is a harness unit of symbolic scale too, otherwise the table unit of the row
        if direction not in EQ_SI or dtype.kind == "c":
            return
        si_image = EQ_SI[direction]
        reg = ctx.registry([])
        both = direction in EQ_BOTH_SYMBOLIC
        sb = ctx.real("xb_s", pos=True)
        ctx.add_row(reg, "xb", unyt.Unit(dst).dimensions, sb)
        if both:
            sa = ctx.real("xa_s", pos=True)
            ctx.add_row(reg, "xa", unyt.Unit(src).dimensions, sa)
            source = "xa"
        else:
            sa, source = EQ_SRC_SI[src], src
        held = held_of(small, dtype)
        for form in ("to", "to_equivalent"):
            q = typed(ctx, small, dtype, source, reg)
            r = run(eq_do, q, form, "xb", eq, kw)
            if not r.ok:
                ctx.require("symbolic scales: equivalence conversion succeeds", False, exc=repr(r.value)[:200], form=form)
                continue
            got = elements(data_of(r.value))
            if symbolic_result(r.value):
                ok = And(len(got) == len(held), *[close(g * sb, si_image(sa * v), tol=Fraction(2, 1000)) for g, v in zip(got, held)])
            else:
                fsa, fsb = float(Fraction(sa)), float(Fraction(sb))
                ok = len(got) == len(held) and all(eq_close(complex(py(g)) * fsb, si_image(fsa * v), np.dtype("f8")) for g, v in zip(got, held))
            ctx.require("symbolic scales: values are the equivalence's image for all unit scales", ok, form=form)

    return Case(f"C17/equivalence/{eq}/{direction}/{dt}", h,
                bounds="enumerated: equivalence, direction, call form, dtype, values; symbolic (multiply/divide directions, copy forms): both unit scales")


EQ_BOTH_SYMBOLIC = ("length->spatial_frequency", "spatial_frequency->length")
EQ_SRC_SI = {"km": 1e3, "nm": 1e-9, "m": 1.0, "K": 1.0, "MHz": 1e6, "THz": 1e12, "GHz": 1e9, "eV": EV, "1/cm": 100.0, "keV": 1e3 * EV, "MK": 1e6,
             "g": 1e-3, "MeV": 1e6 * EV}  # SI value of one source unit, written here
# SI images x_SI -> y_SI of the directions that are a single multiply or divide (symbolic-scale pass)
_MH_KG = M_H
EQ_SI = {
    "length->rate": lambda x: C_LIGHT / x, "rate->length": lambda x: C_LIGHT / x,
    "length->energy": lambda x: H_PLANCK * C_LIGHT / x, "energy->length": lambda x: H_PLANCK * C_LIGHT / x,
    "length->spatial_frequency": lambda x: 1 / x, "spatial_frequency->length": lambda x: 1 / x,
    "rate->energy": lambda x: x * H_PLANCK, "energy->rate": lambda x: x / H_PLANCK,
    "rate->spatial_frequency": lambda x: x / C_LIGHT, "spatial_frequency->rate": lambda x: x * C_LIGHT,
    "energy->spatial_frequency": lambda x: x / (H_PLANCK * C_LIGHT), "spatial_frequency->energy": lambda x: x * (H_PLANCK * C_LIGHT),
    "energy->temperature": lambda x: x / K_BOLTZ, "temperature->energy": lambda x: x * K_BOLTZ,
    "mass->energy": lambda x: x * C_LIGHT ** 2, "energy->mass": lambda x: x / C_LIGHT ** 2,
}


# ----------------------------------------------------------------------------------------------- operand container forms
#
# "Combining integer-typed data in different commensurable units" does not need two arrays: an operand of a binary ufunc, and the
# argument of the constructor, may be a python list or tuple of quantities (or of arrays) in DIFFERENT units; the library converts
# the elements to the first element's unit before the ufunc sees them. That coercion is a conversion route of its own.

SEQ_FORMS = ("list-first", "list-second", "tuple-first", "tuple-second", "operator-list-right", "operator-list-left",
             "constructor-list", "constructor-tuple", "constructor-list-of-arrays", "list-of-arrays-second")
EQ_DTYPES_QUICK = ["int8", "uint16", "int32", "int64", "uint64", "float16", "float32", "complex64", "longlong"]
SEQ_DTYPES_QUICK = ["int8", "int16", "int32", "uint32", "int64", "uint64", "float32", "longlong", "int32-swapped"]
SEQ_UNITS = {"length": (("km", "m", "m"), Fraction(1, 1000)), "em": (("A", "mA", "mA"), Fraction(1, 1000)),
             "cgs-length": (("m", "cm", "cm"), Fraction(1, 100))}


def seq_elements(dtype):
    """held numbers of the three elements (first unit, second unit, second unit): the converted ones are fractional"""
    return [1, 50, 25] if DT(dtype).itemsize == 1 else [1, 500, 250]


def make_sequence_case(op, form, family, dt):
    dtype = DT(dt)
    want = want_float(dtype)
    units, K = SEQ_UNITS[family]
    u0 = units[0]

    def h(ctx):
        unyt = ctx.mods["unyt"]
        uf = getattr(np, op) if op != "construct" else None
        es = seq_elements(dtype)
        of_arrays = "of-arrays" in form
        if of_arrays:
            elems = [typed(ctx, [e, e + 2], dtype, u) for e, u in zip(es, units)]
            conv = [[Fraction(e) * (1 if i == 0 else K), Fraction(e + 2) * (1 if i == 0 else K)] for i, e in enumerate(es)]
            flat = [c for row in conv for c in row]
            partner_vals = [[2, 2], [2, 2], [2, 2]]
        else:
            elems = [typed(ctx, [e], dtype, u, scalar=True) for e, u in zip(es, units)]
            flat = [Fraction(e) * (1 if i == 0 else K) for i, e in enumerate(es)]
            partner_vals = [2, 2, 2]
        seq = tuple(elems) if "tuple" in form else list(elems)
        before = [py(x) for e in elems for x in np.asarray(e.d).ravel()]
        partner = unyt.unyt_array(np.array(partner_vals, dtype=dtype), u0)
        pflat = [Fraction(2)] * len(flat)
        if form.startswith("constructor"):
            r = run(unyt.unyt_array, seq)
            xs, ys = flat, None
        elif form == "operator-list-right":
            r = run(operator.add if op == "add" else operator.sub if op == "subtract" else operator.lt, partner, seq)
            xs, ys = pflat, flat
        elif form == "operator-list-left":
            r = run(operator.add if op == "add" else operator.sub if op == "subtract" else operator.lt, seq, partner)
            xs, ys = flat, pflat
        elif form.endswith("first"):
            r = run(uf, seq, partner)
            xs, ys = flat, pflat
        else:
            r = run(uf, partner, seq)
            xs, ys = pflat, flat
        ctx.observe("outcome", r.outcome if r.ok else "raise:" + type(r.value).__name__)
        if not r.ok:
            ctx.require("raises only when no float of the item size exists", False, exc=repr(r.value)[:200])
            return
        d = data_of(r.value)
        ctx.observe("dtype", str(d.dtype))
        got = [py(x) for x in d.ravel()]
        if ys is None:
            exp = xs
        else:
            exp = [oracle(op, x, y) for x, y in zip(xs, ys)]
        if op in COMPARE:
            ctx.require("comparison result is boolean", d.dtype.kind == "b", dtype=str(d.dtype))
            ctx.require("comparison decided on converted values", got == exp, got=got, want=exp)
        else:
            ctx.require("result is floating point, not integer", d.dtype.kind == "f", dtype=str(d.dtype))
            ctx.require("result not narrower than the converted elements", d.dtype.kind == "f" and d.dtype.itemsize >= want.itemsize,
                        dtype=str(d.dtype), converted=str(want))
            if ys is None:
                ctx.require("constructor: float of the elements' item size", same_type(d.dtype, want), dtype=str(d.dtype), want=str(want))
            if d.dtype.kind == "f":
                fdt = narrowest(dtype, d.dtype)
                ok = len(got) == len(exp) and all(vclose(g, e, fdt, band=float(abs(x) + abs(y if ys is not None else 0)))
                                                  for g, e, x, y in zip(got, exp, xs, ys or xs))
                ctx.require("values combined on converted elements, not truncated", ok, got=got, want=[float(e) for e in exp])
            ctx.require("result carries the first operand's unit", str(r.value.units) == str(unyt.Unit(u0)), unit=str(r.value.units))
        ctx.require("elements untouched", all(np.asarray(e.d).dtype == dtype for e in elems)
                    and [py(x) for e in elems for x in np.asarray(e.d).ravel()] == before
                    and [str(e.units) for e in elems] == [str(unyt.Unit(u)) for u in units])
        # ---- symbolic unit scales: elements in two harness units; for all scales the coerced operand is v*s_elem/s_first
        if dtype.kind not in "uif" or of_arrays or family != "length" or op in COMPARE:
            return
        reg, sa, sb = sym_pair(ctx)
        hu = ("xa", "xb", "xb")
        elems = [typed(ctx, [e], dtype, u, reg, scalar=True) for e, u in zip(es, hu)]
        seq = tuple(elems) if "tuple" in form else list(elems)
        partner = unyt.unyt_array(np.array([2, 2, 2], dtype=dtype), "xa", registry=reg)
        if form.startswith("constructor"):
            r = run(unyt.unyt_array, seq, registry=reg)
        elif form == "operator-list-right":
            r = run(operator.add if op == "add" else operator.sub, partner, seq)
        elif form == "operator-list-left":
            r = run(operator.add if op == "add" else operator.sub, seq, partner)
        elif form.endswith("first"):
            r = run(uf, seq, partner)
        else:
            r = run(uf, partner, seq)
        if not r.ok:
            ctx.require("symbolic scales: coercion of the sequence succeeds", False, exc=repr(r.value)[:200])
            return
        got = elements(data_of(r.value))
        held = held_of(es, dtype)
        scales = (sa, sb, sb)
        t = sym_tol(dtype)
        if form.startswith("constructor"):
            terms = [(0, 0, v, s) for v, s in zip(held, scales)]
        elif form.endswith("first") or form == "operator-list-left":
            sign = 1 if op == "add" else -1
            terms = [(sign * 2, sa, v, s) for v, s in zip(held, scales)]  # seq op partner: v*s + sign*2*sa
        else:
            sign = 1 if op == "add" else -1
            terms = [(2, sa, sign * v, s) for v, s in zip(held, scales)]
        if symbolic_result(r.value):
            ok = And(len(got) == len(terms), *[close(g * sa, p * ps + v * s, extra=(abs(p * ps) + abs(v * s)) * float(t), tol=t) for g, (p, ps, v, s) in zip(got, terms)])
        else:
            fa = Fraction(sa)
            ok = len(got) == len(terms) and all(
                vclose(py(g), (Fraction(p) * Fraction(ps) + Fraction(v) * Fraction(s)) / fa, narrowest(dtype),
                       band=float((abs(Fraction(p) * Fraction(ps)) + abs(Fraction(v) * Fraction(s))) / fa)) for g, (p, ps, v, s) in zip(got, terms))
        ctx.require("symbolic scales: elements are converted to the first element's unit for all scales", ok)

    return Case(f"C17/sequence/{op}/{form}/{family}/{dt}", h,
                bounds="enumerated: container form, operand position, ufunc, unit family, dtype; symbolic (length family): the two unit scales")


# ----------------------------------------------------------------------------------------------- mixed-unit binary ufuncs

ARITH = ("add", "subtract", "maximum", "minimum", "remainder", "hypot", "arctan2", "floor_divide")
COMPARE = ("less", "greater_equal", "equal", "not_equal")
XS = {"real": [1, 2, 3, 5], "complex": [1 + 1j, 2 - 1j, 3 + 0.5j, 5j]}
YS = {"wide": [300, 700, 1300, 90], "byte": [30, 70, 110, 90], "complex": [300 + 1000j, 700 - 500j, 1000 + 250j, 2000 + 0j]}


def second_values(dt):
    dt = DT(dt)
    if dt.kind == "c":
        return YS["complex"]
    return YS["byte"] if dt.itemsize == 1 else YS["wide"]


def oracle(op, x, y):
    """exact (or double precision) reference on python numbers; y already in the first operand's unit"""
    if isinstance(x, complex) or isinstance(y, complex):
        x, y = complex(x), complex(y)
        return {"add": lambda: x + y, "subtract": lambda: x - y, "equal": lambda: x == y, "not_equal": lambda: x != y}[op]()
    x, y = Fraction(x), Fraction(y)
    if op == "add":
        return x + y
    if op == "subtract":
        return x - y
    if op == "maximum":
        return max(x, y)
    if op == "minimum":
        return min(x, y)
    if op == "floor_divide":
        return Fraction(math.floor(x / y))
    if op == "remainder":
        return x - y * math.floor(x / y)
    if op == "hypot":
        return Fraction(math.hypot(x, y))
    if op == "arctan2":
        return Fraction(math.atan2(x, y))
    if op == "less":
        return x < y
    if op == "greater_equal":
        return x >= y
    if op == "equal":
        return x == y
    if op == "not_equal":
        return x != y
    raise KeyError(op)


def make_binary_case(op, dt0, dt1):
    d0, d1 = DT(dt0), DT(dt1)
    cplx = d0.kind == "c" or d1.kind == "c"
    conv_dt = want_float(d1)
    K = Fraction(1, 1000)  # m -> km

    def h(ctx):
        uf = getattr(np, op)
        xs = XS["complex"] if d0.kind == "c" else XS["real"]
        ys = second_values(d1)
        a = typed(ctx, xs, d0, "km")
        b = typed(ctx, ys, d1, "m")
        r = run(uf, a, b)
        ctx.observe("outcome", r.outcome if r.ok else "raise:" + type(r.value).__name__)
        if not r.ok:
            ctx.require("raises only when no float of the item size exists", d1.itemsize == 1, exc=repr(r.value)[:200])
        else:
            d = data_of(r.value)
            ctx.observe("dtype", str(d.dtype))
            got = [py(x) for x in d.ravel()]
            yk = [complex(y) * float(K) if isinstance(y, complex) else Fraction(y) * K for y in ys]
            exp = [oracle(op, x, y) for x, y in zip(xs, yk)]
            if op in COMPARE:
                ctx.require("comparison result is boolean", d.dtype.kind == "b", dtype=str(d.dtype))
                if cplx:
                    ctx.require("complex operand: imaginary part kept in the comparison", got == exp, got=got, want=exp)
                else:
                    ctx.require("comparison decided on converted values", got == exp, got=got, want=exp)
            else:
                ctx.require("result is floating point, not integer", d.dtype.kind in "fc", dtype=str(d.dtype))
                ctx.require("result not narrower than the converted operand", real_float(d.dtype).itemsize >= real_float(conv_dt).itemsize
                            if d.dtype.kind in "fc" else False, dtype=str(d.dtype), converted=str(conv_dt))
                if op != "floor_divide" and op != "arctan2" and op != "hypot" and str(r.value.units) != "km":
                    ctx.require("result carries the first operand's unit", False, unit=str(r.value.units))
                fdt = narrowest(d0, d1, d.dtype) if d.dtype.kind in "fc" else np.dtype("f8")
                if cplx:
                    gc = [complex(g) for g in got]
                    band = [abs(complex(x)) + abs(complex(y)) for x, y in zip(xs, yk)]
                    ctx.require("real parts combined on converted values",
                                all(abs(g.real - e.real) <= 16 * float(np.finfo(fdt).eps) * bd for g, e, bd in zip(gc, exp, band)), got=got, want=exp)
                    ctx.require("complex operand: result is complex with the imaginary part kept",
                                d.dtype.kind == "c" and all(abs(g.imag - e.imag) <= 16 * float(np.finfo(fdt).eps) * bd for g, e, bd in zip(gc, exp, band)), got=got, want=exp, dtype=str(d.dtype))
                elif d.dtype.kind == "f":
                    band = [abs(Fraction(x)) + abs(y) for x, y in zip(xs, yk)]
                    if op == "floor_divide":
                        ok = all(float(g) == float(e) for g, e in zip(got, exp))
                    else:
                        ok = all(vclose(g, e, fdt, band=float(bd)) for g, e, bd in zip(got, exp, band))
                    ctx.require("values combined on converted operands, not truncated", ok, got=got, want=[float(e) for e in exp])
        # ---- symbolic unit scales: add/subtract on real typed operands; for all scales r = x op y*sb/sa; the cast request
        if op not in ("add", "subtract") or cplx:
            return
        reg, sa, sb = sym_pair(ctx)
        a = typed(ctx, xs, d0, "xa", reg)
        b = typed(ctx, ys, d1, "xb", reg)
        with CastLog() as log:
            r = run(uf, a, b)
        if not r.ok:
            ctx.require("symbolic scales: raises only when no float of the item size exists", d1.itemsize == 1, exc=repr(r.value)[:200])
            return
        d = data_of(r.value)
        got = elements(d)
        sign = 1 if op == "add" else -1
        if symbolic_result(r.value):
            # SI form: result*s0 == x*s0 op y*s1, band relative to the operands
            t = sym_tol(d0, d1)
            ok = And(len(got) == len(xs), *[close(g * sa, sa * x + sign * (sb * y), extra=(abs(sa * x) + abs(sb * y)) * float(t), tol=t)
                                           for g, x, y in zip(got, xs, ys)])
            req = log.requested(("dtype",))
            dt_ok = bool(req) and all(q == conv_dt for q in req)
            info = [str(x) for x in req]
        else:
            fdt = narrowest(d0, d1, d.dtype) if d.dtype.kind == "f" else np.dtype("f8")
            k = Fraction(sb) / Fraction(sa)
            ok = d.dtype.kind == "f" and len(got) == len(xs) and all(
                vclose(g, Fraction(x) + sign * Fraction(y) * k, fdt, band=float(abs(Fraction(x)) + abs(Fraction(y) * k))) for g, x, y in zip(got, xs, ys))
            dt_ok = d.dtype == np.result_type(d0, conv_dt)
            info = str(d.dtype)
        ctx.require("symbolic scales: values are x op y*s1/s0 for all scales", ok)
        ctx.require("symbolic scales: second operand converted in the float of its own item size", dt_ok, seen=info)

    return Case(f"C17/binary/{op}/{dt0}+{dt1}", h, bounds="symbolic: unit scales (add/subtract, real dtypes); concrete: dtypes, values")


# ----------------------------------------------------------------------------------------------- unit family x unit system x call form
#
# Which code a conversion runs through depends on the UNITS, not only on the dtype: identical unit (factor 1), another spelling
# of the same scale, an offset (temperatures), an SI prefix, an electromagnetic unit inside one system / across mks and cgs /
# already the system's own unit (separate E&M branch with its own exits), a compound or dimensionless unit, and - for the base
# routes - the unit system and the way it is named (in_base(system), in_base() with the registry's default, in_mks()/in_cgs(),
# convert_to_base(system), convert_to_mks()/convert_to_cgs()). Every row below is held to the obligations of the km<->m rows.
# The factors are written here from the definitions (exact rationals), not read from unyt:
#   1 A = c/10 statA, 1 C = c/10 statC with c = 29 979 245 800 cm/s;  1 T = 10**4 G;  degC = K - 273.15;  degF = 9/5 degC + 32;
#   1 J = 10**7 erg;  1 N = 10**5 dyn;  1 ft = 0.3048 m;  1 lb = 0.45359237 kg;  1 R = 5/9 K

EMF = Fraction(29979245800, 10)
T0 = Fraction(27315, 100)
FT = Fraction(3048, 10000)
LB = Fraction(45359237, 10 ** 8)

# family -> [(source unit, target unit, factor, shift)]: value_in_target = value * factor + shift
NAMED_ROWS = {
    "same": [("km", "km", 1, 0), ("A", "A", 1, 0), ("degC", "degC", 1, 0), ("dimensionless", "dimensionless", 1, 0)],
    "equal-scale": [("J", "N*m", 1, 0), ("Hz", "1/s", 1, 0), ("delta_degC", "K", 1, 0)],
    "offset": [("degC", "K", 1, T0), ("K", "degC", 1, -T0), ("degF", "degC", Fraction(5, 9), Fraction(-160, 9)),
               ("degC", "degF", Fraction(9, 5), 32)],
    "em-prefixed": [("mA", "A", Fraction(1, 1000), 0), ("A", "mA", 1000, 0), ("kG", "G", 1000, 0)],
    "em-cross": [("A", "statA", EMF, 0), ("statA", "A", 1 / EMF, 0), ("T", "G", 10 ** 4, 0), ("G", "T", Fraction(1, 10 ** 4), 0),
                 ("C", "statC", EMF, 0), ("mA", "statA", EMF / 1000, 0)],
    "compound": [("km/s", "m/s", 1000, 0), ("km**2", "m**2", 10 ** 6, 0), ("J", "erg", 10 ** 7, 0), ("g/cm**3", "kg/m**3", 1000, 0)],
    "dimensionless": [("percent", "dimensionless", Fraction(1, 100), 0), ("dimensionless", "percent", 100, 0)],
}
# family -> [(source unit, unit system, unit of the result as unyt prints it, factor, shift)]
BASE_ROWS = {
    "plain": [("km", "mks", "m", 1000, 0), ("km", "cgs", "cm", 10 ** 5, 0), ("g", "mks", "kg", Fraction(1, 1000), 0),
              ("kg", "cgs", "g", 1000, 0)],
    "already-base": [("m", "mks", "m", 1, 0), ("cm", "cgs", "cm", 1, 0), ("kg", "mks", "kg", 1, 0), ("s", "cgs", "s", 1, 0),
                     ("K", "mks", "K", 1, 0), ("dimensionless", "mks", "dimensionless", 1, 0)],
    "em-base": [("A", "mks", "A", 1, 0), ("T", "mks", "T", 1, 0), ("C", "mks", "C", 1, 0), ("statA", "cgs", "statA", 1, 0),
                ("G", "cgs", "G", 1, 0), ("statC", "cgs", "statC", 1, 0)],
    "em-prefixed": [("mA", "mks", "A", Fraction(1, 1000), 0), ("mT", "mks", "T", Fraction(1, 1000), 0), ("kA", "mks", "A", 1000, 0)],
    "em-cross": [("A", "cgs", "statA", EMF, 0), ("statA", "mks", "A", 1 / EMF, 0), ("T", "cgs", "G", 10 ** 4, 0),
                 ("G", "mks", "T", Fraction(1, 10 ** 4), 0), ("C", "cgs", "statC", EMF, 0)],
    "offset": [("degC", "mks", "K", 1, T0), ("degC", "cgs", "K", 1, T0), ("degF", "mks", "K", Fraction(5, 9), Fraction(5, 9) * Fraction(45967, 100))],
    "derived": [("J", "cgs", "erg", 10 ** 7, 0), ("erg", "mks", "J", Fraction(1, 10 ** 7), 0), ("N", "cgs", "dyn", 10 ** 5, 0),
                ("Hz", "cgs", "1/s", 1, 0), ("km/s", "cgs", "cm/s", 10 ** 5, 0), ("percent", "mks", "dimensionless", Fraction(1, 100), 0)],
    "imperial": [("km", "imperial", "ft", 1000 / FT, 0), ("kg", "imperial", "lb", 1 / LB, 0), ("K", "imperial", "R", Fraction(9, 5), 0),
                 ("degC", "imperial", "R", Fraction(9, 5), Fraction(9, 5) * T0), ("A", "imperial", "A", 1, 0)],
}
NAMED_FORMS = ("to", "in_units", "to_value", "convert_to_units", "to_equivalent", "convert_to_equivalent")
UNITS_DTYPES_QUICK = ["int8", "uint16", "int32", "int64", "uint64", "float16", "float32", "complex64", "longlong", "int32-swapped"]
BASE_FORMS = ("in_base", "in_base-default", "in_system", "convert_to_base", "convert_to_system")
FORM_PARTNER = {"convert_to_units": "in_units", "convert_to_base": "in_base", "convert_to_system": "in_system",
                "convert_to_equivalent": "to_equivalent"}
TARGET_FORMS = ("name", "unit object")


def do_form(q, form, target, system):
    """apply one call form; in-place forms work on a copy that is returned"""
    if form in NAMED_FORMS:
        return do_kind(q, form, target)  # the equivalence forms name an equivalence the units do not need (same dimensions)
    if form == "in_base":
        return q.in_base(system)
    if form == "in_base-default":
        return q.in_base()  # the registry's own unit system (mks for the default registry)
    if form == "in_system":
        return getattr(q, "in_" + system)()
    c = q.copy()
    if form == "convert_to_base":
        c.convert_to_base(system)
    elif form == "convert_to_system":
        getattr(c, "convert_to_" + system)()
    else:
        raise KeyError(form)
    return c


def form_applies(form, system):
    if form == "in_base-default":
        return system == "mks"
    if form in ("in_system", "convert_to_system"):
        return system in ("mks", "cgs")
    return True


def first_unheld(dtype):
    """the first positive integer the float of the item size cannot hold (2**p + 1), if the dtype has it"""
    dtype = DT(dtype)
    if dtype.kind not in "ui":
        return None
    v = 2 ** FMT[max(2, dtype.itemsize)][1] + 1
    return v if v <= np.iinfo(dtype).max else None


def family_values(dtype, scalar):
    dtype = DT(dtype)
    if scalar:
        return [{"u": 125, "i": 125, "f": 1500.0, "c": 500 - 1500j}[dtype.kind]]
    if dtype.kind in "ui":
        out = [0, 1, 3, 50, 125 if dtype.kind == "u" else -7, int(np.iinfo(dtype).max)]
        big = first_unheld(dtype)
        return out + ([big] if big else [])
    if dtype.kind == "f":
        return [0.0, 1.0, -1.5, 0.25, 500.0, 1500.0]
    return [0j, 1 + 2j, -0.5 + 0.25j, 500 - 1500j, 3j, 125 + 0j]


def affine(v, factor, shift):
    """exact image of a held python number: v*factor + shift (the shift is real)"""
    e = mul(exact(v), Fraction(factor))
    return (e[0] + shift, e[1]) if isinstance(e, tuple) else e + shift


def factor_fits(factor, fdt):
    """the conversion factor itself is a normal number of float type fdt. Where it is not (1 km = 1e5 cm, 1 A = 3e9 statA in
    float16), the in-place routes multiply by an infinite or zero factor and 0*inf is nan: IEEE overflow, outside the claim (A1);
    such rows are held to the dtype obligations only"""
    fi = np.finfo(fdt)
    return Fraction(float(fi.tiny)) <= abs(Fraction(factor)) <= Fraction(float(fi.max))


def affine_ok(got, held, factor, shift, fdt):
    """got are the held values times factor plus shift, rounded to float type fdt; with a shift the rounding is relative to the
    two terms of the sum (the library multiplies, then subtracts its offset)"""
    bad = []
    if not factor_fits(factor, fdt):
        return bad
    for v, g in zip(held, got):
        # the library's offset is itself a difference of two absolute-zero offsets (5/9*459.67 - 273.15): rounding is relative to those
        band = float(abs(Fraction(shift)) + abs(complex(v)) * float(Fraction(factor)) + 460 * Fraction(factor) + 274) if shift else 0.0
        if not vclose(g, affine(v, factor, Fraction(shift)), fdt, band=band, source=v):
            bad.append((v, g))
    return bad


def make_units_case(form, family, dt):
    dtype = DT(dt)
    want = want_float(dtype)
    named = form in NAMED_FORMS
    inplace = form in FORM_PARTNER
    rows = (NAMED_ROWS if named else BASE_ROWS)[family]
    who = "in-place route" if inplace else "copy route"
    one_byte_int = dtype.itemsize == 1 and dtype.kind in "ui"

    def h(ctx):
        unyt = ctx.mods["unyt"]
        for row in rows:
            if named:
                src, dst, factor, shift = row
                system, unit_name = None, None
            else:
                src, system, unit_name, factor, shift = row
                dst = None
                if not form_applies(form, system):
                    continue
            for scalar in (False, True):
                values = family_values(dtype, scalar)
                held = held_of(values, dtype)
                for tform in (TARGET_FORMS if named and not scalar else TARGET_FORMS[:1]):
                    info = dict(variant=f"{'scalar' if scalar else 'array'} {src}->{dst or system}" + (" (target given as Unit)" if tform != "name" else ""))
                    target = unyt.Unit(dst) if tform != "name" else dst
                    q = typed(ctx, values, dtype, src, scalar=scalar)
                    r = run(do_form, q, form, target, system)
                    ctx.observe(info["variant"], r.outcome if r.ok else "raise:" + type(r.value).__name__)
                    if not r.ok:
                        ctx.require("raises only when no float of the item size exists", inplace and one_byte_int, exc=repr(r.value)[:200], **info)
                        continue
                    if form == "to_value" and scalar:
                        ctx.require("to_value of a quantity is a python number", isinstance(r.value, (float, complex)), type=type(r.value).__name__, **info)
                        ctx.require("copy route: values converted, not truncated", not affine_ok([r.value], held, factor, shift, narrowest(dtype)), **info)
                        continue
                    d = data_of(r.value)
                    kind_ok = d.dtype.kind == ("c" if dtype.kind == "c" else "f")
                    ctx.require(f"{who}: floating point, complex stays complex", kind_ok, dtype=str(d.dtype), **info)
                    ctx.require(f"{who}: float of the input's item size", same_type(d.dtype, want), dtype=str(d.dtype), want=str(want), **info)
                    if kind_ok:
                        got = [py(x) for x in d.ravel()]
                        bad = affine_ok(got, held, factor, shift, narrowest(dtype, d.dtype))
                        ctx.require(f"{who}: values converted, not truncated", not bad and len(got) == len(held), bad=bad[:3], **info)
                    if form != "to_value":
                        name = str(unyt.Unit(dst)) if named else unit_name
                        ctx.require("result carries the target unit", str(r.value.units) == name, unit=str(r.value.units), want=name, **info)
                    big = first_unheld(dtype)
                    if big is not None and not scalar:
                        ctx.require(WARN_LABEL, r.runtime_warned, warnings=[m for _, m in r.warns if "deprecated" not in m][:3], **info)
                    if not inplace:
                        ctx.require("input untouched by the copy route", q.dtype == dtype and np.array_equal(
                            np.asarray(q.d).ravel(), np.array(values, dtype=dtype)) and str(q.units) == str(unyt.Unit(src)), **info)
                    else:
                        rc = run(do_form, q, FORM_PARTNER[form], target, system)
                        if rc.ok:
                            dc = data_of(rc.value)
                            ctx.require("copy and in-place routes agree on dtype", same_type(dc.dtype, d.dtype), copy=str(dc.dtype), inplace=str(d.dtype), **info)
                            fdt = narrowest(dtype, dc.dtype, d.dtype)
                            a, b = [py(x) for x in dc.ravel()], [py(x) for x in d.ravel()]
                            ctx.require("copy and in-place routes agree on values", len(a) == len(b) and (
                                not factor_fits(factor, fdt) or all(same_num(x, y, fdt) for x, y in zip(a, b))), copy=a[:4], inplace=b[:4], **info)
                        else:
                            ctx.require("copy route works where the in-place route works", False, exc=repr(rc.value)[:200], **info)
        # ---- offsets and scales as z3 reals: two harness temperature units, copy routes, real typed payload
        if family != "offset" or inplace or dtype.kind == "c":
            return
        base = not named
        if base and form != "in_base":
            return
        D = unyt.dimensions
        reg = ctx.registry([])
        sa, sb = ctx.real("xta_s", pos=True), ctx.real("xtb_s", pos=True)
        oa, ob = ctx.real("xta_o", nonzero=True), ctx.real("xtb_o", nonzero=True)
        ctx.add_row(reg, "xta", D.temperature, sa, oa)
        ctx.add_row(reg, "xtb", D.temperature, sb, ob)
        ctx.assume(Or(sa > sb * 1.001, sb > sa * 1.001))
        values = family_values(dtype, False)[:5]
        held = held_of(values, dtype)
        q = typed(ctx, values, dtype, "xta", reg)
        with CastLog() as log:
            r = run(do_form, q, form, "xtb", "mks")
        if not r.ok:
            ctx.require("symbolic scales and offsets: conversion succeeds", False, exc=repr(r.value)[:200])
            return
        d = data_of(r.value)
        got = elements(d)
        if symbolic_result(r.value):
            # SI form of the oracle, SI(x) = s*(x - o): the result read in its unit is the input read in its unit (mks base: K)
            t = sym_tol(dtype)
            if base:
                ok = And(len(got) == len(held), *[close(g, sa * (v - oa), extra=(abs(sa * v) + abs(sa * oa)) * float(t), tol=t) for g, v in zip(got, held)])
            else:
                ok = And(len(got) == len(held), *[close(sb * (g - ob), sa * (v - oa), extra=(abs(sa * v) + abs(sa * oa) + abs(sb * ob)) * float(t), tol=t)
                                                   for g, v in zip(got, held)])
            req = log.requested(("asarray",))
            dt_ok = base or (bool(req) and req[-1] == want)
            seen = [str(x) for x in req]
        else:
            fdt = narrowest(dtype, d.dtype) if d.dtype.kind == "f" else np.dtype("f8")
            fsa, fsb, foa, fob = Fraction(sa), Fraction(sb), Fraction(oa), Fraction(ob)
            k = fsa if base else fsa / fsb
            sh = -fsa * foa if base else fob - fsa * foa / fsb
            ok = len(got) == len(held) and all(
                vclose(g, Fraction(v) * k + sh, fdt, band=float(abs(Fraction(v) * k) + abs(fsa * foa / (1 if base else fsb)) + (0 if base else abs(fob))), source=v)
                for g, v in zip(got, held))
            dt_ok = same_type(d.dtype, want)
            seen = str(d.dtype)
        ctx.require("symbolic scales and offsets: values are the affine image for all scales and offsets", ok)
        ctx.require("symbolic scales and offsets: requested float type has the input's item size", dt_ok, seen=seen)

    return Case(f"C17/units/{form}/{family}/{dt}", h,
                bounds="enumerated: unit rows of the family, dtype, call form, boundary values; symbolic (offset family, copy routes): two scales, two offsets")


# mixed-unit binary ufuncs over unit families: (first unit, second unit, factor of the second operand's values into the first
# unit's scale, unit of the result, which operand is rescaled). Temperature differences added to a temperature point take the
# separate branch in which the FIRST operand is converted.
BINARY_UNITS = {
    "em-prefixed": ("A", "mA", Fraction(1, 1000), "A"),
    "em-cgs": ("G", "kG", 1000, "G"),
    "compound": ("km/s", "m/s", Fraction(1, 1000), "km/s"),
    "dimensionless": ("percent", "dimensionless", 100, "%"),
    "derived": ("J", "erg", Fraction(1, 10 ** 7), "J"),
    "difference+difference": ("delta_degC", "delta_degF", Fraction(5, 9), "Δ°C"),
    "point+difference": ("degC", "delta_degF", Fraction(5, 9), "°C"),
    "difference+point": ("delta_degF", "degC", None, "°C"),  # x dF + y degC = y + 5/9 x degC: the first operand is rescaled
}


def make_binary_units_case(op, family, dt0, dt1):
    d0, d1 = DT(dt0), DT(dt1)
    u0, u1, K, unit = BINARY_UNITS[family]
    first_rescaled = K is None

    def h(ctx):
        uf = getattr(np, op)
        xs, ys = [1, 2, 3, 5], second_values(d1)
        a, b = typed(ctx, xs, d0, u0), typed(ctx, ys, d1, u1)
        hx, hy = held_of(xs, d0), held_of(ys, d1)
        r = run(uf, a, b)
        ctx.observe("outcome", r.outcome if r.ok else "raise:" + type(r.value).__name__)
        conv = d0 if first_rescaled else d1
        if not r.ok:
            # (with a 1-byte second operand unyt refuses before it looks which operand is rescaled: a 1-byte integer is involved)
            ctx.require("raises only when no float of the item size exists", d1.itemsize == 1, exc=repr(r.value)[:200])
            return
        d = data_of(r.value)
        ctx.observe("dtype", str(d.dtype))
        got = [py(x) for x in d.ravel()]
        if first_rescaled:
            pairs = [(Fraction(x) * Fraction(5, 9), Fraction(y)) for x, y in zip(hx, hy)]
        else:
            pairs = [(Fraction(x), Fraction(y) * K) for x, y in zip(hx, hy)]
        if op in COMPARE:
            ctx.require("comparison result is boolean", d.dtype.kind == "b", dtype=str(d.dtype))
            ctx.require("comparison decided on converted values", got == [oracle(op, x, y) for x, y in pairs], got=got)
            return
        ctx.require("result is floating point, not integer", d.dtype.kind == "f", dtype=str(d.dtype))
        ctx.require("result not narrower than the converted operand", d.dtype.kind == "f" and d.dtype.itemsize >= want_float(conv).itemsize,
                    dtype=str(d.dtype), converted=str(want_float(conv)))
        ctx.require("result carries the first operand's unit", str(r.value.units) == unit, unit=str(r.value.units), want=unit)
        if d.dtype.kind == "f":
            fdt = narrowest(d0, d1, d.dtype)
            exp = [oracle(op, x, y) for x, y in pairs]
            ok = len(got) == len(pairs) and all(vclose(g, e, fdt, band=float(abs(x) + abs(y))) for g, e, (x, y) in zip(got, exp, pairs))
            ctx.require("values combined on converted operands, not truncated", ok, got=got, want=[float(e) for e in exp])
        ctx.require("operands untouched", a.dtype == d0 and b.dtype == d1 and np.array_equal(a.d, np.array(xs, dtype=d0))
                    and np.array_equal(b.d, np.array(ys, dtype=d1)))

    return Case(f"C17/binary-units/{op}/{family}/{dname(d0)}+{dname(d1)}", h, bounds="concrete: table units, dtypes, values")


# ----------------------------------------------------------------------------------------------- out= promotion (concrete)

def make_out_case(kind, odt, plain_out=False):
    od = DT(odt)
    want = want_float(od)

    def h(ctx):
        unyt = ctx.mods["unyt"]
        if kind == "mixed-int":
            a = typed(ctx, [1, 2, 3], "int32", "km")
            b = typed(ctx, [500, 250, 1500], "int32", "m")
            exp = [Fraction(3, 2), Fraction(9, 4), Fraction(9, 2)]
            call_ = lambda o: np.add(a, b, out=o)  # noqa: E731
        elif kind == "mixed":
            a = typed(ctx, [1.5, 2.25, 3.0], "float64", "km")
            b = typed(ctx, [500.0, 250.0, 1000.0], "float64", "m")
            exp = [Fraction(2), Fraction(5, 2), Fraction(4)]
            call_ = lambda o: np.add(a, b, out=o)  # noqa: E731
        elif kind == "same":
            a = typed(ctx, [1.5, 2.25, 3.0], "float64", "km")
            exp = [Fraction(3), Fraction(9, 2), Fraction(6)]
            call_ = lambda o: np.add(a, a, out=o)  # noqa: E731
        elif kind == "unary":
            a = typed(ctx, [1.5, 2.25, 0.0625], "float64", "km")
            exp = [Fraction(9, 4), Fraction(81, 16), Fraction(1, 256)]
            call_ = lambda o: np.square(a, out=o)  # noqa: E731
        else:
            raise KeyError(kind)
        o = np.zeros(3, dtype=od) if plain_out else unyt.unyt_array(np.zeros(3, dtype=od), "s")
        r = run(call_, o)
        ctx.observe("outcome", r.outcome if r.ok else "raise:" + type(r.value).__name__)
        if not r.ok:
            ctx.require("raises only when no float of the item size exists", od.itemsize == 1, exc=repr(r.value)[:200])
            return
        do, dr = data_of(o), data_of(r.value)
        ctx.observe("dtype", [str(do.dtype), str(dr.dtype)])
        ctx.require("out buffer: float of its item size, complex stays complex", same_type(do.dtype, want), dtype=str(do.dtype), want=str(want))
        ctx.require("returned value has the dtype of the out buffer", dr.dtype == do.dtype, out=str(do.dtype), ret=str(dr.dtype))
        fdt = narrowest(want, "int32") if kind == "mixed-int" else real_float(want)  # int32 operand: converted in float32
        for who, dd in (("out buffer", do), ("returned value", dr)):
            got = [complex(py(x)) for x in dd.ravel()]
            ctx.require(f"{who}: values not truncated", all(near(g.real, e, fdt) and g.imag == 0 for g, e in zip(got, exp)), got=got)
        if not plain_out:
            u = {"unary": "km**2"}.get(kind, "km")
            ctx.require("out buffer relabelled with the result's unit", str(o.units) == u and str(r.value.units) == u, unit=str(o.units))

    return Case(f"C17/out/{kind}{'-ndarray' if plain_out else ''}/{odt}", h, bounds="concrete: table units")


# ----------------------------------------------------------------------------------------------- process state

_BOXES = (dict, list, set, collections.OrderedDict, collections.defaultdict)
_SIMPLE = (type(None), bool, int, float, complex, str, bytes, tuple, frozenset, np.dtype)
_MISSING = object()


def _box_same(box, saved):
    if len(box) != len(saved):
        return False
    if isinstance(box, dict):
        return box.keys() == saved.keys() and all(map(operator.is_, box.values(), saved.values())) \
            and all(map(operator.is_, box.keys(), saved.keys()))
    if isinstance(box, list):
        return all(map(operator.is_, box, saved))
    return box == saved  # sets hold hashable members


class ProcessState:
    """what `import unyt` leaves in the module-level (and class-level) containers and simple globals of the unyt modules.
    The runner clears unyt's lru_caches at the start of a path; anything else a module keeps between calls (a memo table, a
    'last dtype' global) would leak from one case into the next inside a worker process, while the replay starts from a
    fresh interpreter. restore() puts these back, so that every path - and every history inside a path that asks for it -
    starts from the state of a freshly imported library, exactly as the replay does."""

    def __init__(self):
        self.owners = []
        for name, m in sorted(sys.modules.items()):
            if (name == "unyt" or name.startswith("unyt.")) and m is not None:
                self.owners.append(m)
                for v in list(vars(m).values()):
                    if isinstance(v, type) and str(getattr(v, "__module__", "")).startswith("unyt") and v not in self.owners:
                        self.owners.append(v)
        self.boxes, self.names, seen = [], [], set()
        for o in self.owners:
            keys = {}
            for k, v in list(vars(o).items()):
                if k.startswith("__"):
                    continue
                if type(v) in _BOXES:
                    keys[k] = v
                    if id(v) not in seen:
                        seen.add(id(v))
                        self.boxes.append((v, copy.copy(v)))
                elif type(v) in _SIMPLE:
                    keys[k] = v
            self.names.append((o, keys, len(vars(o))))

    def restore(self):
        for box, saved in self.boxes:
            if _box_same(box, saved):
                continue
            if isinstance(box, list):
                box[:] = saved
            else:
                box.clear()
                box.update(saved)
        for o, keys, size in self.names:
            now = vars(o)
            for k, v in keys.items():
                if now.get(k, _MISSING) is not v:
                    setattr(o, k, v)
            if len(now) == size:
                continue
            for k in [k for k, v in list(now.items()) if k not in keys and not k.startswith("__") and type(v) in _BOXES + _SIMPLE]:
                try:
                    delattr(o, k)
                except (AttributeError, TypeError):
                    pass


_pristine = {}


def fresh_library(ctx):
    """module state as after `import unyt`, caches empty"""
    st = _pristine.get(id(ctx.mods["unyt"]))
    if st is None:
        raise HarnessError("C17: cases() did not record the state of the freshly imported library")
    st.restore()
    clear_caches(ctx.mods)


def from_fresh_library(case):
    fn = case.fn

    def h(ctx):
        # once per path: a warm variant (symx/warm.py) runs another case first in the same path; the case under test must then
        # meet what that case left behind in the library, so only the first function of a path starts from the fresh state
        if not getattr(ctx, "_c17_fresh_done", False):
            fresh_library(ctx)
            ctx._c17_fresh_done = True
        return fn(ctx)
    case.fn = h
    return case


# ----------------------------------------------------------------------------------------------- call histories
#
# The dtype the library chooses for one conversion must not depend on what was converted before in the same process. A step
# is one call of one KIND on data of one dtype; a history is a sequence of two or three steps run inside ONE path from the
# state of a freshly imported library; EVERY step is held to the obligations a single conversion is held to.

H_COPY = ("to", "in_units", "to_value", "in_base", "to_equivalent")
H_INPLACE = ("convert_to_units", "convert_to_base", "convert_to_equivalent")
H_BINARY = ("add", "floor_divide")  # the two places a binary ufunc builds the float type of its second operand
H_KINDS = H_COPY + H_INPLACE + H_BINARY + ("out", "spectral")
H_SCALAR = ("to", "in_units", "in_base", "convert_to_units", "convert_to_base")  # kinds also run on a unyt_quantity ("<kind>@q")
H_WARNS = H_COPY + H_INPLACE  # kinds whose integer conversions are governed by a warning site (part (a))
H_SYMBOLIC = ("to", "in_units", "to_value", "in_base", "to_equivalent", "add")  # kinds that can carry symbolic unit scales

L_RUNS = "history: every step succeeds (raising only where no float of the item size exists)"
L_KIND = "history: floating point, complex stays complex, at every step"
L_SIZE = "history: float of the input's item size at every step"
L_VALS = "history: values converted, not truncated, at every step"
L_WARN = "history: RuntimeWarning at every step that converts integers too large for the float"
L_KEPT = "history: input untouched by the copy routes at every step"
L_SVAL = "history, symbolic scales: values are v*s_from/s_to for all scales at every step"
L_SREQ = "history, symbolic scales: requested float type has the input's item size at every step"
L_LATE = "history: operands and results of earlier steps are not altered by later steps"
H_LABELS = (L_RUNS, L_KIND, L_SIZE, L_VALS, L_WARN, L_KEPT, L_SVAL, L_SREQ, L_LATE)


def history_values(dt, large_table, i=0):
    """six values per dtype (the same count for every dtype, different numbers at every step i, so that a buffer shared between
    steps shows), with fractions/imaginary parts that truncation would lose; for integers the first value the float of the
    item size cannot hold (if the dtype has it), so that the warning is due at that step"""
    dt = DT(dt)
    if dt.kind in "ui":
        L = large_table.get(max(2, dt.itemsize))
        big = L if isinstance(L, int) and L <= np.iinfo(dt).max else 7
        return [i, 1 + i, 3, 50, -7 if dt.kind == "i" else 125, big]
    if dt.kind == "f":
        return [0.5 * i, 1.0, -1.5, 0.25, 500.0, 1500.0 + i]
    return [0.5j * i, 1 + 2j, -0.5 + 0.25j, 500 - 1500j, 3j, 125 + i + 0j]


class Ledger:
    """obligations of a history are conjunctions over its steps: one label per obligation kind, so that the same obligation
    fails whichever step the state left by the earlier ones hits"""

    def __init__(self):
        self.conds = {l: [] for l in H_LABELS}
        self.info = {l: [] for l in H_LABELS}
        self.kept = []

    def keep(self, what, arr, **info):
        """remember a typed buffer (an operand or a result) of a step: it must still hold the same numbers when the history ends"""
        a = np.asarray(arr)
        if a.dtype != object:
            self.kept.append((what, a, a.copy(), info))

    def add(self, label, cond, **info):
        self.conds[label].append(cond)
        if not isinstance(cond, SymBool) and not cond:
            self.info[label].append(info)

    def settle(self, ctx, history):
        for what, a, snap, info in self.kept:
            self.add(L_LATE, a.dtype == snap.dtype and a.shape == snap.shape and np.array_equal(a, snap, equal_nan=a.dtype.kind in "fc"),
                     what=what, now=repr(a)[:120], was=repr(snap)[:120], **info)
        for l in H_LABELS:
            if self.conds[l]:
                ctx.require(l, And(*self.conds[l]), history=history, failing=self.info[l][:3])


def history_step_table(ctx, led, kind, dt, model, where, i=0):
    """one step on table units (concrete typed data): m -> km (cm -> m for the base routes, km -> Hz for the spectral
    equivalence), compared with exact rational arithmetic rounded to the narrowest float involved"""
    dtype = DT(dt)
    want = want_float(dtype)
    info = dict(step=where, kind=kind, dtype=str(dtype))
    kind, scalar = split_kind(kind)
    values = history_values(dtype, model["large"], i)
    if scalar:
        values = [{"u": 125, "i": 125, "f": 1500.0, "c": 500 - 1500j}[dtype.kind] + i]
    held = [py(v) for v in np.array(values, dtype=dtype)]
    one_byte_int = dtype.itemsize == 1 and dtype.kind in "ui"
    if kind in H_BINARY:
        if kind == "floor_divide" and dtype.kind == "c":
            raise HarnessError("C17: floor_divide is not defined on complex data")
        xs = [1, 2, 3, 5 + i] if dtype.kind != "c" else XS["complex"][:3] + [5j + i]
        ys = second_values(dtype)
        a, b = typed(ctx, xs, dtype, "km"), typed(ctx, ys, dtype, "m")
        r = run(getattr(np, kind), a, b)
        led.keep("first operand", a.d, **info)
        led.keep("second operand", b.d, **info)
        led.add(L_RUNS, r.ok or dtype.itemsize == 1, exc=None if r.ok else repr(r.value)[:160], **info)
        if not r.ok:
            return
        d = data_of(r.value)
        led.add(L_KIND, d.dtype.kind == ("c" if dtype.kind == "c" else "f"), got=str(d.dtype), **info)
        led.add(L_SIZE, d.dtype.kind in "fc" and real_float(d.dtype).itemsize >= real_float(want).itemsize, got=str(d.dtype),
                at_least=str(want), **info)
        if d.dtype.kind in "fc":
            fdt = narrowest(dtype, d.dtype)
            got = [py(x) for x in d.ravel()]
            K = Fraction(1, 1000)
            bad = []
            for g, x, y in zip(got, held_of(xs, dtype), held_of(ys, dtype)):
                if dtype.kind == "c":
                    e = (Fraction(x.real) + Fraction(y.real) * K, Fraction(x.imag) + Fraction(y.imag) * K)
                    bd = abs(x) + abs(y) / 1000.0
                else:
                    e = Fraction(x) + Fraction(y) * K
                    bd = float(abs(Fraction(x)) + abs(Fraction(y) * K))
                if kind == "floor_divide":
                    if float(g) != float(math.floor(Fraction(x) / (Fraction(y) * K))):
                        bad.append((x, y, g))
                elif not vclose(g, e, fdt, band=bd):
                    bad.append((x, y, g))
            unit = "dimensionless" if kind == "floor_divide" else "km"
            led.add(L_VALS, not bad and len(got) == len(xs) and str(r.value.units) == unit, bad=bad[:3], unit=str(r.value.units), **info)
        led.keep("result", d, **info)
        return
    if kind == "out":
        unyt = ctx.mods["unyt"]
        a = typed(ctx, [1.5, 2.25, 3.0 + i], "float64", "km")
        b = typed(ctx, [500.0, 250.0, 1000.0], "float64", "m")
        exp = [Fraction(2), Fraction(5, 2), Fraction(4 + i)]
        o = unyt.unyt_array(np.zeros(3, dtype=dtype), "s")
        r = run(lambda: np.add(a, b, out=o))
        led.add(L_RUNS, r.ok or dtype.itemsize == 1, exc=None if r.ok else repr(r.value)[:160], **info)
        if not r.ok:
            return
        do, dr = data_of(o), data_of(r.value)
        led.add(L_KIND, do.dtype.kind == ("c" if dtype.kind == "c" else "f"), got=str(do.dtype), **info)
        led.add(L_SIZE, same_type(do.dtype, want) and dr.dtype == do.dtype, out=str(do.dtype), returned=str(dr.dtype), want=str(want), **info)
        if do.dtype.kind in "fc":
            fdt = real_float(want)
            ok = all(near(complex(py(g)).real, e, fdt) and complex(py(g)).imag == 0 for dd in (do, dr) for g, e in zip(dd.ravel(), exp))
            led.add(L_VALS, ok and str(o.units) == "km", out=[py(x) for x in do.ravel()], unit=str(o.units), **info)
        led.keep("out buffer", do, **info)
        for what, x in (("first operand", a), ("second operand", b)):
            led.keep(what, x.d, **info)
        return
    if kind == "spectral":
        # cross-dimension equivalence (copy route). Its item size is the subject of a known finding reported by the
        # C17/equivalence cases (always float64/complex128); here it is a step of the history, held to kind and values only
        vals = [1, 2, 3] if dtype.kind != "c" else [1 + 0j, 2 + 0j, 3 + 0j]
        q = typed(ctx, vals, dtype, "km")
        r = run(lambda: q.to("Hz", equivalence="spectral"))
        led.add(L_RUNS, r.ok, exc=None if r.ok else repr(r.value)[:160], **info)
        if not r.ok:
            return
        d = data_of(r.value)
        led.add(L_KIND, d.dtype.kind == ("c" if dtype.kind == "c" else "f"), got=str(d.dtype), **info)
        if d.dtype.kind in "fc" and real_float(d.dtype).itemsize >= 4:
            exp = [299792458.0 / (1000.0 * v) for v in (1, 2, 3)]
            got = [complex(py(x)) for x in d.ravel()]
            led.add(L_VALS, len(got) == 3 and all(abs(g.real - e) <= 1e-4 * e and g.imag == 0 for g, e in zip(got, exp)), got=got, **info)
        led.keep("operand", q.d, **info)
        led.keep("result", d, **info)
        return
    # ---- the six routes and the same-dimension equivalence routes
    base = kind in ("in_base", "convert_to_base")
    src, dst, factor = ("cm", "m", Fraction(1, 100)) if base else ("m", "km", Fraction(1, 1000))
    q = typed(ctx, values, dtype, src, scalar=scalar)
    r = run(do_kind, q, kind, dst)
    inplace = kind in H_INPLACE
    led.keep("operand", q.d, **info)
    led.add(L_RUNS, r.ok or (inplace and one_byte_int), exc=None if r.ok else repr(r.value)[:160], **info)
    if not r.ok:
        return
    d = data_of(r.value)
    kind_ok = d.dtype.kind == ("c" if dtype.kind == "c" else "f")
    led.add(L_KIND, kind_ok, got=str(d.dtype), **info)
    led.add(L_SIZE, same_type(d.dtype, want), got=str(d.dtype), want=str(want), **info)
    if kind_ok:
        fdt = narrowest(dtype, d.dtype)
        got = [py(x) for x in d.ravel()]
        bad = [(v, g) for v, g in zip(held, got) if not vclose(g, mul(exact(v), factor), fdt, source=v)]
        unit_ok = kind == "to_value" or str(r.value.units) == dst
        led.add(L_VALS, not bad and len(got) == len(held) and unit_ok, bad=bad[:3], **info)
    if dtype.kind in "ui" and kind in H_WARNS:
        L = model["large"].get(max(2, dtype.itemsize))
        if isinstance(L, int) and any(abs(v) >= L for v in held):
            led.add(L_WARN, r.runtime_warned, warnings=[m for _, m in r.warns if "deprecated" not in m][:3], **info)
    if not inplace:
        led.add(L_KEPT, q.dtype == dtype and str(q.units) == src and np.array_equal(np.asarray(q.d).ravel(), np.array(values, dtype=dtype)), **info)
    led.keep("result", d, **info)


def split_kind(kind):
    """'to@q' -> ('to', True): the step is run on a unyt_quantity"""
    return (kind[:-2], True) if kind.endswith("@q") else (kind, False)


def held_of(values, dtype):
    return [py(v) for v in np.array(values, dtype=dtype)]


def do_kind(q, kind, target):
    if kind == "to_equivalent":
        return q.to_equivalent(target, "spectral")  # same dimensions: the equivalence route hands over to in_units
    if kind == "convert_to_equivalent":
        c = q.copy()
        c.convert_to_equivalent(target, "spectral")
        return c
    return do_route(q, kind, target, "mks")


def history_step_symbolic(ctx, led, kind, dt, model, where, reg, sa, sb, i=0):
    """one step in harness units xa -> xb whose scales are z3 reals (copy routes and add on real typed data): the converted
    values are proved for ALL scales, the float type the code asks for is read from the cast log"""
    dtype = DT(dt)
    want = want_float(dtype)
    info = dict(step=where, kind=kind, dtype=str(dtype))
    kind, scalar = split_kind(kind)
    if kind == "add":
        xs, ys = [1, 2, 3, 5 + i], second_values(dtype)
        a, b = typed(ctx, xs, dtype, "xa", reg), typed(ctx, ys, dtype, "xb", reg)
        with CastLog() as log:
            r = run(np.add, a, b)
        led.add(L_RUNS, r.ok or dtype.itemsize == 1, exc=None if r.ok else repr(r.value)[:160], **info)
        if not r.ok:
            return
        d = data_of(r.value)
        got = elements(d)
        if symbolic_result(r.value):
            t = sym_tol(dtype)
            led.add(L_SVAL, And(len(got) == len(xs), *[close(g * sa, sa * x + sb * y, extra=(abs(sa * x) + abs(sb * y)) * float(t), tol=t)
                                                       for g, x, y in zip(got, xs, ys)]))
            req = log.requested(("dtype",))
            led.add(L_SREQ, bool(req) and all(x == want for x in req), requested=[str(x) for x in req], **info)
        else:
            fdt = narrowest(dtype, d.dtype) if d.dtype.kind == "f" else np.dtype("f8")
            k = Fraction(sb) / Fraction(sa)
            led.add(L_SVAL, d.dtype.kind == "f" and len(got) == len(xs) and all(
                vclose(g, Fraction(x) + Fraction(y) * k, fdt, band=float(abs(Fraction(x)) + abs(Fraction(y) * k))) for g, x, y in zip(got, xs, ys)),
                got=[py(g) for g in got][:4], **info)
            led.add(L_SREQ, d.dtype == np.result_type(dtype, want), got=str(d.dtype), **info)
        return
    base = kind == "in_base"
    values = history_values(dtype, model["large"], i)
    if scalar:
        values = [{"u": 125, "i": 125, "f": 1500.0}[dtype.kind] + i]
    held = held_of(values, dtype)
    q = typed(ctx, values, dtype, "xa", reg, scalar=scalar)
    with CastLog() as log:
        r = run(do_kind, q, kind, "xb")
    led.add(L_RUNS, r.ok, exc=None if r.ok else repr(r.value)[:160], **info)
    if not r.ok:
        return
    d = data_of(r.value)
    got = elements(d)
    if symbolic_result(r.value):
        led.add(L_SVAL, And(len(got) == len(held), *[close(g * (1 if base else sb), sa * v, tol=sym_tol(dtype)) for g, v in zip(got, held)]))
        if not base:
            req = log.requested(("asarray",))
            led.add(L_SREQ, bool(req) and req[-1] == want, requested=[str(x) for x in req], **info)
    else:
        fdt = narrowest(dtype, d.dtype) if d.dtype.kind == "f" else np.dtype("f8")
        fx = Fraction(sa) if base else Fraction(sa) / Fraction(sb)
        led.add(L_SVAL, len(got) == len(held) and all(vclose(g, Fraction(v) * fx, fdt, source=v) for g, v in zip(got, held)),
                got=[py(g) for g in got][:4], **info)
        if not base:
            led.add(L_SREQ, same_type(d.dtype, want), got=str(d.dtype), **info)
    led.add(L_KEPT, q.dtype == dtype and np.array_equal(np.asarray(q.d).ravel(), np.array(values, dtype=dtype)), **info)


def can_be_symbolic(kind, dt):
    return split_kind(kind)[0] in H_SYMBOLIC and DT(dt).kind in "uif"


def make_history_case(steps):
    """steps: tuple of (kind, dtype). Run 1: every step on table units. Run 2 (if any step can carry symbolic scales): the same
    history again from the state of a freshly imported library, with those steps in harness units of symbolic scale."""
    steps = tuple((k, dname(d)) for k, d in steps)
    text = " -> ".join(f"{k}({d})" for k, d in steps)

    def h(ctx):
        model = read_source_model()
        led = Ledger()
        for i, (kind, dt) in enumerate(steps):
            history_step_table(ctx, led, kind, dt, model, f"{i + 1}/{len(steps)} table units", i)
        if any(can_be_symbolic(k, d) for k, d in steps):
            fresh_library(ctx)
            reg, sa, sb = sym_pair(ctx)
            for i, (kind, dt) in enumerate(steps):
                if can_be_symbolic(kind, dt):
                    history_step_symbolic(ctx, led, kind, dt, model, f"{i + 1}/{len(steps)} symbolic scales", reg, sa, sb, i)
                else:
                    history_step_table(ctx, led, kind, dt, model, f"{i + 1}/{len(steps)} table units (run with symbolic scales)", i)
        led.settle(ctx, text)

    return Case("C17/history/" + "/".join(f"{k}-{d}" for k, d in steps), h,
                bounds="enumerated: the history (kinds, dtypes); symbolic: unit scales of the copy-route/add steps on real data")


SAME_SIZE_OTHER_TARGET = [("float64", "complex64"), ("int64", "complex64"), ("uint64", "complex64")]
SAME_KIND_OTHER_SIZE = [("float16", "float64"), ("float32", "float64"), ("float16", "float32"), ("complex64", "complex128"),
                        ("int16", "int64"), ("int32", "int64"), ("uint8", "uint32")]
OTHER_KIND_OTHER_SIZE = [("float32", "complex64"), ("float64", "complex128"), ("int8", "float64"), ("int32", "float16")]
REPEATS = [("int64", "int64"), ("complex64", "complex64"), ("float32", "float32")]
# same kind and item size, another dtype identity (C long long next to C long; the other byte order), and such a dtype next to a
# dtype of the same item size with another target
SAME_WIDTH_OTHER_IDENTITY = [("int64", "longlong"), ("uint64", "ulonglong"), ("int32", "int32-swapped"), ("float32", "float32-swapped"),
                             ("complex64", "complex64-swapped"), ("longlong", "complex64"), ("float64", "int64-swapped"),
                             ("ulonglong", "float64-swapped"), ("int16-swapped", "float16")]


def both_orders(pairs):
    return [p for a, b in pairs for p in ((a, b), (b, a))]


def history_cases(tier):
    """the enumerated histories (see BOUNDS)"""
    quick = tier == "quick"
    seen, out = set(), []

    def add(*steps):
        key = tuple((k, dname(d)) for k, d in steps)
        if key not in seen:
            seen.add(key)
            out.append(make_history_case(key))

    collide = both_orders(SAME_SIZE_OTHER_TARGET + SAME_KIND_OTHER_SIZE + OTHER_KIND_OTHER_SIZE) + REPEATS
    collide += both_orders(SAME_WIDTH_OTHER_IDENTITY if not quick else SAME_WIDTH_OTHER_IDENTITY[:1] + SAME_WIDTH_OTHER_IDENTITY[3:6])
    sites = ("to", "in_base", "convert_to_units", "add", "out") if quick else \
        ("to", "in_base", "convert_to_units", "convert_to_base", "add", "out", "to_equivalent")
    others = [k for k in H_KINDS if k not in sites]
    # two steps: every ordered dtype pair through the copy route
    for a in ALL_DTYPES:
        for b in ALL_DTYPES:
            add(("to", a), ("to", b))
    for v in VARIANT_DTYPES:
        canonical = str(DT(v).newbyteorder("="))
        for b in ([canonical, "complex64"] if quick else ALL_DTYPES):
            add(("to", v), ("to", b))
            add(("to", b), ("to", v))
    # two steps: every pair of sites x the colliding dtype pairs; thorough: every dtype pair where the two sites are the same or
    # one of them is the copy route
    every = [(a, b) for a in ALL_DTYPES for b in ALL_DTYPES]
    for k1 in sites:
        for k2 in sites:
            for a, b in (every if not quick and (k1 == k2 or "to" in (k1, k2)) else collide):
                add((k1, a), (k2, b))
    # two steps: each remaining kind before and after the copy route
    few = both_orders(SAME_SIZE_OTHER_TARGET[:2] + SAME_KIND_OTHER_SIZE[:1] + SAME_KIND_OTHER_SIZE[3:4]) if quick else collide
    for k in others:
        for a, b in few:
            if k == "floor_divide" and "complex" in a + b:
                a, b = a.replace("complex64", "float32").replace("complex128", "float64"), b.replace("complex64", "float32").replace("complex128", "float64")
            add((k, a), ("to", b))
            add(("to", a), (k, b))
            add((k, a), ("add", b))
            add(("add", a), (k, b))
    # two steps: a quantity (0-d) before / after an array and two quantities
    for k in (("to", "convert_to_units", "in_base") if quick else H_SCALAR):
        for a, b in few:
            add((k + "@q", a), ("to", b))
            add(("to", a), (k + "@q", b))
            add((k + "@q", a), (k + "@q", b))
    # three steps
    reps = ["float32", "int64", "float64", "complex64", "complex128"] if quick else \
        ["int16", "float16", "int32", "float32", "int64", "float64", "complex64", "complex128"]
    patterns = [("to", "to", "to"), ("convert_to_units", "add", "to"), ("add", "to", "convert_to_units"), ("to", "out", "in_base")]
    n = 0
    for a in reps:
        for b in reps:
            for c in reps:
                if a == b == c:
                    continue
                n += 1
                for pi, pat in enumerate(patterns):
                    if quick and pi and (n + pi) % 4:
                        continue  # quick: the copy-route pattern for every triple, each mixed pattern for a quarter of them
                    add(*zip(pat, (a, b, c)))
    return out


def WARM_PARTNERS(cases):
    """forced (case, predecessor) pairs of the runner's history axis for the unit-family cases: the same call form and unit family
    first on data of another dtype (same item size with another target / another width / another dtype identity), so that
    anything the library remembers per unit, per unit pair or per unit system - and not per dtype - meets a second dtype.
    (A C17 path puts the library into its fresh state once, before the first function it runs: the predecessor's state stays.)"""
    ids = {c.id for c in cases}
    out = {}
    for cid in sorted(ids):
        parts = cid.split("/")
        if len(parts) != 5 or parts[1] != "units":
            continue
        for dt, before in (("int32", "int64"), ("longlong", "complex64"), ("complex64", "float64"), ("float32", "uint64")):
            if parts[4] == dt:
                w = "/".join(parts[:4] + [before])
                if w in ids:
                    out.setdefault(cid, []).append(w)
    return out


def coverage_extra(results, tier):
    """how much of the verdict is the solver's and how much is enumeration (stated, not hidden)"""
    smt = [r for r in results if r["id"].startswith(("C17/threshold/", "C17/encoding/"))]
    rest = [r for r in results if r not in smt]
    sym = [r for r in rest if r["stats"]["discharged"] > 0]
    hist = [r for r in rest if r["id"].startswith("C17/history/")]
    return dict(
        history_cases=len(hist), history_cases_with_symbolic_scale_steps=len([r for r in hist if r["stats"]["discharged"] > 0]),
        smt_threshold_cases=len(smt), smt_threshold_obligations_discharged=sum(r["stats"]["discharged"] for r in smt),
        symbolic_scale_cases=len(sym), symbolic_scale_obligations_discharged=sum(r["stats"]["discharged"] for r in sym),
        enumeration_only_cases=len(rest) - len(sym), enumerated_ground_checks=sum(r["stats"]["ground_true"] for r in rest),
        note="cases listed as enumeration-only (in-place routes, out=, complex operands, equivalence routes, comparison and "
             "non-additive ufuncs, histories made of such steps only) are concrete runs of the real code on table units: their verdict "
             "is not a solver verdict; which histories are run is enumeration in every case")


def _broken(msg):
    def h(ctx):
        raise HarnessError(msg)
    return Case("C17/source-model", h, conform=False)


def cases(tier, mods):
    check_names(mods, NAMES)
    if id(mods["unyt"]) not in _pristine:
        _pristine[id(mods["unyt"])] = ProcessState()  # nothing has been converted yet in this process
    try:
        read_source_model()
    except HarnessError as e:
        return [_broken(str(e))]
    out = []
    for route in ROUTES:
        for dt in INT_DTYPES + VARIANT_INT:
            out.append(make_threshold_case(route, dt))
    for dt in INT_DTYPES:
        for fs in (2, 4, 8):
            out.append(make_encoding_case(dt, fs))
    for route in ROUTES:
        for dt in EVERY_DTYPE:
            out.append(make_route_case(route, dt))
    for dt in EVERY_DTYPE:
        out.append(make_equiv_case(dt))
    # every registered equivalence x every direction x call form (see EQ_ROWS); an equivalence the table has no row for is an error
    listed = {row[0] for row in EQ_ROWS}
    for name in registered_equivalences(mods):
        if name not in listed:
            return [_broken(f"C17: equivalence '{name}' is registered in unyt.equivalencies but has no direction rows in EQ_ROWS")]
    eq_dts = EQ_DTYPES_QUICK if tier == "quick" else EVERY_DTYPE
    for row in EQ_ROWS:
        for dt in eq_dts:
            out.append(make_equiv_dir_case(row, dt))
    # operand container forms: python sequences of quantities in different units as ufunc operand / constructor argument
    seq_dts = SEQ_DTYPES_QUICK if tier == "quick" else INT_DTYPES + FLOAT_DTYPES + VARIANT_INT
    for form in SEQ_FORMS:
        if form.startswith("constructor"):
            seq_ops = ["construct"]
        elif tier == "quick":
            seq_ops = ["add", "less"] if form in ("list-first", "list-second") else ["add"]
        else:
            seq_ops = ["add", "subtract", "less"] + (["maximum", "floor_divide"] if not form.startswith("operator") else [])
        for op in seq_ops:
            for family in SEQ_UNITS:
                if tier == "quick" and family != "length" and form not in ("list-first", "list-second", "constructor-list"):
                    continue
                for dt in seq_dts:
                    out.append(make_sequence_case(op, form, family, dt))
    # unit family x unit system x call form (see NAMED_ROWS / BASE_ROWS)
    unit_dts = UNITS_DTYPES_QUICK if tier == "quick" else EVERY_DTYPE
    for form in NAMED_FORMS:
        for family in NAMED_ROWS:
            if "equivalent" in form and family == "em-cross":
                continue  # mks and cgs E&M units differ in dimensions: no same-dimension hand-over to take
            for dt in unit_dts:
                out.append(make_units_case(form, family, dt))
    for form in BASE_FORMS:
        for family in BASE_ROWS:
            if not any(form_applies(form, row[1]) for row in BASE_ROWS[family]):
                continue
            for dt in unit_dts:
                out.append(make_units_case(form, family, dt))
    real_dts = INT_DTYPES + FLOAT_DTYPES
    var_real = VARIANT_INT + VARIANT_FLOAT
    if tier == "quick":
        ops = ["add", "subtract", "less", "floor_divide"]
        cops = ["add", "subtract"]
        pairs = {op: [(d, d) for d in real_dts] + [("float64", d) for d in real_dts if d != "float64"] for op in ops}
        out_kinds = ["same", "mixed", "unary", "mixed-int"]
    else:
        ops = list(ARITH) + list(COMPARE)
        cops = ["add", "subtract", "equal", "not_equal"]
        pairs = {op: [(d, d) for d in real_dts] + [(f, d) for f in ("float64", "int64", "float16") for d in real_dts if d != f] for op in ops}
        for op in ("add", "subtract"):
            pairs[op] = [(a, b) for a in real_dts for b in real_dts]
        out_kinds = ["same", "mixed", "unary", "mixed-int"]
    for op in ops:
        # the dtype variants (C long long, other byte order): with themselves and in both positions next to float64
        more = [(d, d) for d in var_real] + [("float64", d) for d in var_real]
        if tier != "quick" or op == "add":
            more += [(d, "float64") for d in var_real] + [("longlong", "int64"), ("int64", "longlong"), ("int32-swapped", "int32"), ("float32", "float32-swapped")]
        for a, b in pairs[op] + more:
            out.append(make_binary_case(op, a, b))
    for op in (["add", "less"] if tier == "quick" else ["add", "subtract", "less", "maximum"]):
        for family in BINARY_UNITS:
            if op == "subtract" and "point" in family:
                continue  # unyt refuses to subtract across temperature scales with an offset
            if op in ("less", "maximum") and ("point" in family or "difference" in family):
                continue  # ordering across temperature scales is not part of this property
            bdts = real_dts + (var_real if tier != "quick" else ["longlong", "int32-swapped", "float32-swapped"])
            mixed = [("float64", "int32"), ("int16", "int64"), ("int64", "int16"), ("float32", "uint8"), ("uint8", "float32")]
            if tier == "quick" and op != "add":
                bdts, mixed = ["int16", "int64", "float32", "longlong"], mixed[:2]
            for d in bdts:
                out.append(make_binary_units_case(op, family, d, d))
            for a, b in mixed:
                out.append(make_binary_units_case(op, family, a, b))
    for op in cops:
        cp = [(c, c) for c in COMPLEX_DTYPES] + [("float64", c) for c in COMPLEX_DTYPES] + [(c, "float64") for c in COMPLEX_DTYPES] \
            + [("complex128", "int32"), ("int32", "complex64")]
        cp += [(c, c) for c in VARIANT_COMPLEX] + [("float64", c) for c in VARIANT_COMPLEX] + [("complex64", "longlong"), ("longlong", "complex128")]
        if tier != "quick":
            cp += [(c, d) for c in COMPLEX_DTYPES for d in real_dts if d not in ("float64", "int32")]
            cp += [(d, c) for c in COMPLEX_DTYPES for d in real_dts if d not in ("float64", "int32")]
            cp += [("complex64", "complex128"), ("complex128", "complex64")]
        for a, b in cp:
            out.append(make_binary_case(op, a, b))
    for kind in out_kinds:
        for dt in EVERY_DTYPE:
            out.append(make_out_case(kind, dt))
    for dt in EVERY_DTYPE:
        out.append(make_out_case("mixed", dt, plain_out=True))
    out += history_cases(tier)
    return [from_fresh_library(c) for c in out]
