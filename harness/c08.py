"""C08 - offset temperature scales follow point/difference semantics or refuse.

Scales and offsets are the table's (concrete); every reading is a z3 real. The oracle is written here, in kelvin,
with exact rationals: a reading x of unit U stands for K_U(x) = a_U*x + b_U (b_U = 0 for K, R, the delta units and
their prefixed forms). The unit a result is *labelled* with is looked up BY NAME in this table, never through
unyt's base_value/base_offset, so a number computed on one scale and labelled with another is visible.
"""
import operator
from fractions import Fraction as Fr

import numpy as np

from .common import And, Case, HarnessError, Iff, Or, band, call, close, elements, ite, payload

LEVEL = "other"
MANIFEST = dict(
    category="other",
    text=("Bounded symbolic execution of the real temperature arithmetic (symx): for every enumerated ordered pair of "
          "temperature units (K, R, degC, degF, delta_degC, delta_degF, the spellings °C/°F and the SI-prefixed forms of "
          "K, degC, delta_degC) x operation x call form, the readings are z3 reals and z3 proves per path that a returned "
          "value equals the affine (kelvin) result expressed in the unit the result is labelled with, that conversions are "
          "the affine maps, and that every forbidden combination raised; any model is replayed on plain unyt."),
    design="DESIGN.md section 4 C08",
    technique="symbolic execution of the real Python code over z3 real terms; SMT (QF_LRA/NRA) obligations per path; counterexample replay")
EXPLANATION = (
    "The real unyt_array.__array_ufunc__ (with _preserve_units, _difference_units, the K/R+offset guard, the delta_ guard, "
    "the multiply/divide guard), Unit.__mul__/__truediv__/__pow__, _get_conversion_factor/in_units/convert_to_units/to_value "
    "and diff_helper (np.diff, np.ediff1d, np.ptp) are executed on quantities whose readings are z3 reals; the units are the "
    "table's. An independent oracle maps a reading x of unit U to kelvin, a_U*x+b_U (exact rationals 273.15, 459.67, 5/9, "
    "10**n); the oracle row of a result is chosen by the NAME of the unit the result carries. Per path z3 decides pc & not(P) "
    "for: conversion A->B equals (a_A x + b_A - b_B)/a_B on four routes; point+-difference, difference+point, "
    "difference+-difference, point-point (operator, ufunc, in-place, out=, outer, reduce/accumulate forms, np.diff, "
    "np.ediff1d, np.ptp) either raise or return the affine result in the labelled unit (differences must be labelled with a "
    "difference unit); comparisons and max/min of same-kind operands agree with the kelvin comparison; and every forbidden "
    "call (two different offset scales in add/subtract/comparison/max/min; multiply, divide, floor-divide, square, "
    "sqrt, cbrt, power, reciprocal, product/quotient reductions of an offset-scale quantity, in every form) raised on that path, "
    "i.e. for all readings.")
BOUNDS = {
    "quick": "units {K, R, degC, degF, delta_degC, delta_degF, °C, °F} + prefixes {m, k} of K/degC/delta_degC (14 spellings); "
             "all ordered pairs; additive and multiplicative ops in operator/ufunc/in-place/out=/outer form on scalar and "
             "2-element readings (per unit x unit-family case: the prefixed forms of one base unit share a case); "
             "multiplication/division by bare numbers, dimensionless and metre quantities and Unit objects; the power family "
             "with exponents {2, 3, -1, -2, 1/2, 1/3, 3/2, -1/2}; comparisons and max/min on scalar readings; "
             "reductions/diff/ediff1d/ptp on 2-element arrays; conversions on 4 routes, scalar and 2-element readings",
    "thorough": "same with all 22 SI prefix spellings (74 unit spellings, 5476 ordered pairs); additionally mixed scalar/array "
                "operands, comparisons and max/min also on 2-element readings where at least one operand is an unprefixed "
                "spelling (prefixed x prefixed pairs: scalar readings only - cut for wall time), reductions on 3-element "
                "arrays, second differences",
}
OUTSIDE = ("IEEE rounding/overflow (A1); integer/complex payloads (C17). Not obliged because the property does not state them: "
           "difference - point, point + point on the SAME offset scale (sum/mean of readings), comparisons/max/min of a point "
           "with a difference, remainder/mod/fmod, powers 0 and 1, ufuncs outside add/subtract/multiply/divide/power/"
           "comparison/max-min; the `**` operator with exponents 2, 0.5, -1 (ndarray.__pow__ turns them into np.square/np.sqrt/"
           "np.reciprocal for float payloads only; those ufuncs and np.power with these exponents are checked); np.divmod (NumPy has no object-dtype loop for it, so the engine cannot drive it; its defect is "
           "listed under C01/C04). Whether an *allowed* combination is refused is not judged (value-if-returned). "
           "Units are the default registry's; user-defined offset units are C03's subject.")
CONFORM = {"quick": 100000, "thorough": 600}

# --------------------------------------------------------------------------------------------- oracle (independent of unyt)
C0 = Fr("273.15")
F0 = Fr("459.67")
R9 = Fr(5, 9)
BASE = {
    "K": ("D", Fr(1), Fr(0)),
    "R": ("D", R9, Fr(0)),
    "degC": ("P", Fr(1), C0),
    "degF": ("P", R9, F0 * R9),
    "delta_degC": ("D", Fr(1), Fr(0)),
    "delta_degF": ("D", R9, Fr(0)),
}
ALIAS = {"°C": "degC", "°F": "degF"}
PREFIXABLE = ("K", "degC", "delta_degC")
SI_EXP = {"Y": 24, "Z": 21, "E": 18, "P": 15, "T": 12, "G": 9, "M": 6, "k": 3, "h": 2, "da": 1, "d": -1, "c": -2, "m": -3,
          "u": -6, "µ": -6, "μ": -6, "n": -9, "p": -12, "f": -15, "a": -18, "z": -21, "y": -24}
QUICK_PREFIXES = ["m", "k"]


def oracle_of(name):
    """(kind, a, b) of a unit name: K(x) = a*x + b; kind 'P' point scale (offset), 'D' difference/absolute scale"""
    if name in BASE:
        return BASE[name]
    if name in ALIAS:
        return BASE[ALIAS[name]]
    for p, e in SI_EXP.items():
        if name.startswith(p) and name[len(p):] in PREFIXABLE:
            k, a, b = BASE[name[len(p):]]
            # x [p U] is the reading p*x of U for a difference; for the offset scale the zero point stays where it is
            return (k, a * Fr(10) ** e, b)
    return None


def family_members(fam, prefixes):
    if fam.startswith("p*"):
        return [p + fam[2:] for p in prefixes]
    return [fam]


def all_units(prefixes):
    return list(BASE) + list(ALIAS) + [p + b for b in PREFIXABLE for p in prefixes]


def families():
    return list(BASE) + list(ALIAS) + ["p*" + b for b in PREFIXABLE]


def same_scale(oa, ob):
    return oa[1] == ob[1] and oa[2] == ob[2]


# --------------------------------------------------------------------------------------------- helpers

def _fresh(ctx):
    """A7 also in replay/conformance mode: several cases share one interpreter there"""
    from symx import shims
    shims.clear_caches(ctx.mods)


def lib(f):
    """call into unyt; its exceptions become values. A gap of the engine is never read as a refusal by unyt."""
    r = call(f)
    if r[0] == "raise":
        e = r[1]
        m = str(e)
        if isinstance(e, HarnessError) or "loop of ufunc does not support" in m or "not supported for the input types" in m or "SymReal" in m or "SymBool" in m:
            raise HarnessError(f"engine gap, not a refusal of unyt: {type(e).__name__}: {m[:200]}")
    return r


def kel(o, v):
    return o[1] * v + o[2]


def label_of(res):
    u = getattr(res, "units", None)
    if u is None:
        return None
    return str(u.expr)


def affine(res, wants, need_diff):
    """res carries a unit of the table and its numbers, read in THAT unit, are the kelvin values `wants`
    (list of (kelvin value, band terms)); need_diff: the label must be a difference unit"""
    o = oracle_of(label_of(res) or "")
    if o is None:
        return False
    if need_diff and o[0] != "D":
        return False
    vals = payload(res)
    if len(vals) != len(wants):
        return False
    return And(*[close(kel(o, v), w, tol=0, extra=band(o[2], *bt)) for v, (w, bt) in zip(vals, wants)])


def bshape(sa, sb):
    return np.broadcast_shapes(sa, sb)


def bcast(x, y):
    xs, ys = np.broadcast_arrays(x, y)
    return elements(xs), elements(ys)


def tagof(sa, sb=None):
    t = "x".join(map(str, sa)) or "0"
    if sb is not None and sb != sa:
        t += "," + ("x".join(map(str, sb)) or "0")
    return t


def outcome_obs(ctx, label, r):
    if r[0] == "raise":
        ctx.observe(label, "raise:" + type(r[1]).__name__)
    else:
        v = r[1]
        if isinstance(v, tuple):
            v = v[0]
        ctx.observe(label, payload(v))


def zeros(ctx, shape, unit):
    return ctx.quantity(ctx.const_array(np.zeros(shape)), unit)


# --------------------------------------------------------------------------------------------- conversions

ROUTES = ("to", "in_units", "to_value", "convert_to_units")


def convert(q, tgt, route):
    if route == "to":
        r = q.to(tgt)
        return payload(r), label_of(r)
    if route == "in_units":
        r = q.in_units(tgt)
        return payload(r), label_of(r)
    if route == "to_value":
        return elements(q.to_value(tgt)), None
    c = q.copy()
    c.convert_to_units(tgt)
    return payload(c), label_of(c)


def _obtain(ctx, x, A, origin):
    """the quantity to convert, obtained the way a program might have obtained it: a copied or deep-copied quantity
    (new Unit object, for deepcopy a new registry) must convert exactly like a freshly built one"""
    import copy as _copy
    q = ctx.quantity(x.copy(), A)
    if origin == "copy":
        return q.copy()
    if origin == "deepcopy":
        return _copy.deepcopy(q)
    if origin == "unitcopy":
        return ctx.quantity(x.copy(), q.units.copy(deep=True))
    return q


def make_conv_case(A, targets, shape, origin="fresh"):
    oA = oracle_of(A)

    def h(ctx):
        _fresh(ctx)
        x = ctx.reals("x", shape)
        xs = elements(x)
        q0 = None if origin == "fresh" else _obtain(ctx, x, A, origin)  # conversions never touch their input
        for B in targets:
            oB = oracle_of(B)
            q = q0 if q0 is not None else _obtain(ctx, x, A, origin)
            want = [(kel(oA, v) - oB[2]) / oB[1] for v in xs]
            bands = [band(oA[1] * v / oB[1], oA[2] / oB[1], oB[2] / oB[1]) for v in xs]
            for route in ROUTES:
                r = lib(lambda: convert(q, B, route))
                if r[0] == "raise":
                    ctx.require("convert/converts", False, route=route, target=B, exc=repr(r[1])[:120])
                    continue
                vals, lab = r[1]
                ok = And(*[close(v, w, tol=0, extra=e) for v, w, e in zip(vals, want, bands)]) if len(vals) == len(want) else False
                if lab is not None:
                    ol = oracle_of(lab)
                    ok = And(ok, ol is not None and ol == oB)
                ctx.require("convert/affine map", ok, route=route, target=B, shape=shape)
                ctx.observe(f"{B}/{route}", vals)
            ctx.require("convert/input untouched", And(oracle_of(label_of(q) or "") == oA, *[close(v, w, tol=0) for v, w in zip(payload(q), xs)]), target=B)
    return Case(f"C08/conv/{A}/shape{tagof(shape)}" + ("" if origin == "fresh" else "/" + origin), h, bounds="symbolic: readings", weight=len(targets))


# --------------------------------------------------------------------------------------------- additive pair table

def additive_spec(op, oA, oB):
    """what the property says about A op B: 'raise' | None (not stated) | (kind of oracle)"""
    kA, kB = oA[0], oB[0]
    if kA == "P" and kB == "P":
        if not same_scale(oA, oB):
            return "raise"
        return "pp" if op == "sub" else None
    if kA == "P":
        return "pd"
    if kB == "P":
        return "dp" if op == "add" else None
    return "dd"


def additive_wants(spec, op, oA, oB, xs, ys):
    sg = 1 if op == "add" else -1
    out = []
    for x, y in zip(xs, ys):
        ax, by = oA[1] * x, oB[1] * y
        if spec == "pd":
            out.append((ax + oA[2] + sg * by, (ax, by, oA[2])))
        elif spec == "dp":
            out.append((ax + by + oB[2], (ax, by, oB[2])))
        elif spec == "dd":
            out.append((ax + sg * by, (ax, by)))
        elif spec == "pp":
            out.append((ax - by, (ax, by)))
    return out, spec in ("dd", "pp")


ADD_OPS = {"add": (operator.add, operator.iadd, "add"), "sub": (operator.sub, operator.isub, "subtract")}


def additive_forms(ctx, op, A, B, x, y):
    """(form, thunk, index pairs) - thunk returns the result object (or a tuple of objects that must all hold it)"""
    f, fi, ufn = ADD_OPS[op]
    uf = getattr(np, ufn)
    sa, sb = x.shape, y.shape
    bs = bshape(sa, sb)

    def qa():
        return ctx.quantity(x.copy(), A)

    def qb():
        return ctx.quantity(y.copy(), B)
    xs, ys = bcast(x, y)
    forms = [("op", lambda: f(qa(), qb()), (xs, ys)), ("ufunc", lambda: uf(qa(), qb()), (xs, ys))]
    if bs == sa:
        def inplace():
            c = qa()
            r = fi(c, qb())
            return (r, c)
        forms.append(("inplace", inplace, (xs, ys)))

    def out():
        o = zeros(ctx, bs, B)
        r = uf(qa(), qb(), out=o)
        return (r, o)
    forms.append(("out", out, (xs, ys)))
    if sa == (2,) and sb == (2,):
        ex, ey = elements(x), elements(y)
        forms.append(("outer", lambda: uf.outer(qa(), qb()), ([ex[0], ex[0], ex[1], ex[1]], [ey[0], ey[1], ey[0], ey[1]])))
    return forms


def check_additive(ctx, A, B, x, y, tag):
    oA, oB = oracle_of(A), oracle_of(B)
    for op in ("add", "sub"):
        spec = additive_spec(op, oA, oB)
        for form, thunk, (xs, ys) in additive_forms(ctx, op, A, B, x, y):
            r = lib(thunk)
            outcome_obs(ctx, f"{op}/{form}/{B}/{tag}", r)
            if spec == "raise":
                ctx.require(f"{op}/refuses two offset scales", r[0] == "raise", form=form, A=A, B=B, shape=tag, got=repr(r[1])[:80])
            elif spec is not None and r[0] == "ok":
                wants, need_diff = additive_wants(spec, op, oA, oB, xs, ys)
                objs = r[1] if isinstance(r[1], tuple) else (r[1],)
                ctx.require(f"{op}/value in labelled unit", And(*[affine(o, wants, need_diff) for o in objs]),
                            form=form, A=A, B=B, shape=tag, labelled=[label_of(o) for o in objs], kind=spec)


def multiplicative_forms(ctx, A, B, x, y):
    sa, sb = x.shape, y.shape
    bs = bshape(sa, sb)

    def qa():
        return ctx.quantity(x.copy(), A)

    def qb():
        return ctx.quantity(y.copy(), B)

    def inpl(fi):
        def g():
            c = qa()
            return fi(c, qb())
        return g
    forms = [("mul/op", lambda: qa() * qb()), ("mul/ufunc", lambda: np.multiply(qa(), qb())),
             ("mul/out", lambda: np.multiply(qa(), qb(), out=zeros(ctx, bs, A))),
             ("div/op", lambda: qa() / qb()), ("div/ufunc", lambda: np.divide(qa(), qb())),
             ("div/out", lambda: np.divide(qa(), qb(), out=zeros(ctx, bs, A))),
             ("floordiv/op", lambda: qa() // qb()), ("floordiv/ufunc", lambda: np.floor_divide(qa(), qb()))]
    if bs == sa:
        forms += [("mul/inplace", inpl(operator.imul)), ("div/inplace", inpl(operator.itruediv)),
                  ("floordiv/inplace", inpl(operator.ifloordiv))]
    if sa == (2,) and sb == (2,):
        forms += [("mul/outer", lambda: np.multiply.outer(qa(), qb())), ("div/outer", lambda: np.divide.outer(qa(), qb()))]
    return forms


def check_multiplicative(ctx, A, B, x, y, tag):
    for form, thunk in multiplicative_forms(ctx, A, B, x, y):
        r = lib(thunk)
        outcome_obs(ctx, f"{form}/{B}/{tag}", r)
        ctx.require(f"{form.split('/')[0]}/refuses offset operand", r[0] == "raise", form=form, A=A, B=B, shape=tag, got=repr(r[1])[:80])


def make_pair_case(A, famB, prefixes, shape_pairs):
    oA = oracle_of(A)
    members = family_members(famB, prefixes)

    def h(ctx):
        _fresh(ctx)
        for si, (sa, sb) in enumerate(shape_pairs):
            tag = tagof(sa, sb)
            for bi, B in enumerate(members):
                x = ctx.reals(f"x{si}", sa)
                y = ctx.reals(f"y{si}", sb)
                check_additive(ctx, A, B, x, y, tag)
                if oA[0] == "P" or oracle_of(B)[0] == "P":
                    # divisors are kept away from zero: x/0 is outside the reals (A1)
                    xm = ctx.reals(f"xm{si}", sa, nonzero=True)
                    ym = ctx.reals(f"ym{si}", sb, nonzero=True)
                    check_multiplicative(ctx, A, B, xm, ym, tag)
    return Case(f"C08/pair/{A},{famB}", h, bounds="symbolic: readings", weight=len(members) * len(shape_pairs))


# --------------------------------------------------------------------------------------------- comparisons, max/min (forking)

CMP = {"lt": (operator.lt, "less", lambda a, b: a < b), "le": (operator.le, "less_equal", lambda a, b: a <= b),
       "gt": (operator.gt, "greater", lambda a, b: a > b), "ge": (operator.ge, "greater_equal", lambda a, b: a >= b),
       "eq": (operator.eq, "equal", lambda a, b: a == b), "ne": (operator.ne, "not_equal", lambda a, b: a != b)}


def same_kind_spec(oA, oB):
    if oA[0] == "P" and oB[0] == "P":
        return "value" if same_scale(oA, oB) else "raise"
    if oA[0] == "D" and oB[0] == "D":
        return "value"
    return None


def make_cmp_case(A, B, shape):
    oA, oB = oracle_of(A), oracle_of(B)
    spec = same_kind_spec(oA, oB)

    def h(ctx):
        _fresh(ctx)
        x = ctx.reals("x", shape)
        y = ctx.reals("y", shape)
        xs, ys = elements(x), elements(y)
        tag = tagof(shape)
        for name, (f, ufn, truth) in CMP.items():
            uf = getattr(np, ufn)
            for form, thunk in (("op", lambda: f(ctx.quantity(x.copy(), A), ctx.quantity(y.copy(), B))),
                                ("ufunc", lambda: uf(ctx.quantity(x.copy(), A), ctx.quantity(y.copy(), B)))):
                r = lib(thunk)
                if r[0] == "raise":
                    ctx.observe(f"{name}/{form}", "raise:" + type(r[1]).__name__)
                else:
                    ctx.observe(f"{name}/{form}", [bool(v) for v in elements(r[1])])
                if spec == "raise":
                    ctx.require("comparison/refuses two offset scales", r[0] == "raise", op=name, form=form, A=A, B=B, got=repr(r[1])[:80])
                elif r[0] == "ok":
                    got = elements(r[1])
                    ok = len(got) == len(xs)
                    conds = []
                    for g, a, b in zip(got, xs, ys):
                        ka, kb = kel(oA, a), kel(oB, b)
                        conds.append(Or(Iff(bool(g), truth(ka, kb)), close(ka, kb, extra=band(oA[2], oB[2]))))
                    ctx.require("comparison/agrees with kelvin comparison", And(ok, *conds), op=name, form=form, A=A, B=B, shape=tag)
    return Case(f"C08/cmp/{A},{B}/shape{tagof(shape)}", h, bounds="symbolic: readings", max_paths=2000)


def make_maxmin_case(A, B, shape):
    oA, oB = oracle_of(A), oracle_of(B)
    spec = same_kind_spec(oA, oB)

    def h(ctx):
        _fresh(ctx)
        x = ctx.reals("x", shape)
        y = ctx.reals("y", shape)
        xs, ys = elements(x), elements(y)
        tag = tagof(shape)
        for ufn in ("maximum", "minimum", "fmax", "fmin"):
            uf = getattr(np, ufn)
            hi = ufn in ("maximum", "fmax")

            def out():
                o = zeros(ctx, shape, B)
                r = uf(ctx.quantity(x.copy(), A), ctx.quantity(y.copy(), B), out=o)
                return (r, o)
            for form, thunk in (("ufunc", lambda: uf(ctx.quantity(x.copy(), A), ctx.quantity(y.copy(), B))), ("out", out)):
                r = lib(thunk)
                outcome_obs(ctx, f"{ufn}/{form}", r)
                if spec == "raise":
                    ctx.require("maxmin/refuses two offset scales", r[0] == "raise", op=ufn, form=form, A=A, B=B, got=repr(r[1])[:80])
                elif r[0] == "ok":
                    wants = []
                    for a, b in zip(xs, ys):
                        ka, kb = kel(oA, a), kel(oB, b)
                        w = ite((ka >= kb) if hi else (ka <= kb), ka, kb)
                        wants.append((w, (ka, kb, oA[2])))
                    objs = r[1] if isinstance(r[1], tuple) else (r[1],)
                    ctx.require("maxmin/value in labelled unit", And(*[affine(o, wants, oA[0] == "D") for o in objs]),
                                op=ufn, form=form, A=A, B=B, shape=tag, labelled=[label_of(o) for o in objs])
    return Case(f"C08/maxmin/{A},{B}/shape{tagof(shape)}", h, bounds="symbolic: readings", max_paths=4000)


# --------------------------------------------------------------------------------------------- forbidden unary / scaling forms

def power_forms(ctx, U, x):
    """(obligation label, form, thunk). The `**` operator is only used with exponents NumPy does not special-case:
    on float payloads ndarray.__pow__ turns 2, 0.5, -1 into np.square/np.sqrt/np.reciprocal (checked here as ufuncs),
    on object payloads it does not, so those three spellings would not mean the same call in both modes."""
    shape = x.shape

    def q():
        return ctx.quantity(x.copy(), U)

    def ip(fi, arg):
        def g():
            c = q()
            return fi(c, arg)
        return g

    def o():
        return zeros(ctx, shape, U)
    third = 1.0 / 3.0
    forms = [("square", "ufunc", lambda: np.square(q())), ("square", "out", lambda: np.square(q(), out=o())),
             ("reciprocal", "ufunc", lambda: np.reciprocal(q())), ("reciprocal", "out", lambda: np.reciprocal(q(), out=o())),
             ("sqrt", "ufunc", lambda: np.sqrt(q())), ("sqrt", "out", lambda: np.sqrt(q(), out=o())),
             ("cbrt", "ufunc", lambda: np.cbrt(q())), ("cbrt", "out", lambda: np.cbrt(q(), out=o())),
             ("rdiv(1)", "op", lambda: 1.0 / q())]
    for pname, p in (("2", 2), ("3", 3), ("-1", -1), ("-2", -2), ("1/2", 0.5), ("1/3", third), ("3/2", 1.5), ("-1/2", -0.5)):
        forms.append(("power", f"ufunc {pname}", lambda p=p: np.power(q(), p)))
        forms.append(("power", f"out {pname}", lambda p=p: np.power(q(), p, out=o())))
        if pname not in ("2", "-1", "1/2"):
            forms.append(("pow operator", f"** {pname}", lambda p=p: q() ** p))
            forms.append(("pow operator", f"**= {pname}", ip(operator.ipow, p)))
    if shape != ():
        forms += [("multiply.reduce", "reduce", lambda: np.multiply.reduce(q())), ("divide.reduce", "reduce", lambda: np.divide.reduce(q())),
                  ("multiply.accumulate", "accumulate", lambda: np.multiply.accumulate(q())), ("prod", "function", lambda: np.prod(q())),
                  ("prod", "method", lambda: q().prod()),
                  ("cumprod", "function", lambda: np.cumprod(q())), ("dot", "function", lambda: np.dot(q(), q())),
                  ("pow operator", "** array of 3", lambda: q() ** np.full(shape, 3.0))]
    return forms


def make_power_case(units, shapes):
    def h(ctx):
        _fresh(ctx)
        for si, shape in enumerate(shapes):
            x = ctx.reals(f"x{si}", shape, pos=True)
            for U in units:
                for label, form, thunk in power_forms(ctx, U, x):
                    r = lib(thunk)
                    outcome_obs(ctx, f"{label}/{form}/{U}/{tagof(shape)}", r)
                    ctx.require(f"{label}/refuses offset operand", r[0] == "raise", form=form, unit=U, shape=tagof(shape), got=repr(r[1])[:80])
    return Case("C08/forbid/power", h, bounds="symbolic: readings (positive)", weight=50)


def scaling_forms(ctx, U, x, z):
    shape = x.shape
    unyt = ctx.mods["unyt"]

    def q():
        return ctx.quantity(x.copy(), U)

    def other(unit):
        return ctx.quantity(z, unit)

    def ip(fi, arg):
        def g():
            c = q()
            return fi(c, arg())
        return g
    def bare():
        return z
    forms = [("mul bare/op", lambda: q() * bare()), ("rmul bare/op", lambda: bare() * q()), ("div bare/op", lambda: q() / bare()),
             ("rdiv bare/op", lambda: bare() / q()), ("mul bare/ufunc", lambda: np.multiply(q(), bare())),
             ("mul bare/inplace", ip(operator.imul, bare)), ("div bare/inplace", ip(operator.itruediv, bare)),
             ("mul bare/out", lambda: np.multiply(q(), bare(), out=zeros(ctx, shape, U))),
             ("mul dimensionless/op", lambda: q() * other("dimensionless")), ("rmul dimensionless/op", lambda: other("dimensionless") * q()),
             ("div dimensionless/op", lambda: q() / other("dimensionless")), ("rdiv dimensionless/op", lambda: other("dimensionless") / q()),
             ("mul metre/op", lambda: q() * other("m")), ("rmul metre/op", lambda: other("m") * q()),
             ("div metre/op", lambda: q() / other("m")), ("rdiv metre/op", lambda: other("m") / q()),
             ("div metre/ufunc", lambda: np.divide(q(), other("m"))), ("floordiv bare/op", lambda: q() // bare()),
             ("mul Unit/op", lambda: q() * unyt.Unit("m")), ("rmul Unit/op", lambda: unyt.Unit("m") * q()),
             ("div Unit/op", lambda: q() / unyt.Unit("s")), ("rdiv Unit/op", lambda: unyt.Unit("J") / q())]
    return forms


def make_scaling_case(units, shapes):
    def h(ctx):
        _fresh(ctx)
        for si, shape in enumerate(shapes):
            x = ctx.reals(f"x{si}", shape, nonzero=True)
            z = ctx.real(f"z{si}", nonzero=True)
            for U in units:
                for form, thunk in scaling_forms(ctx, U, x, z):
                    r = lib(thunk)
                    outcome_obs(ctx, f"{form}/{U}/{tagof(shape)}", r)
                    ctx.require(f"{form.split('/')[0]}/refuses offset operand", r[0] == "raise", form=form, unit=U, shape=tagof(shape), got=repr(r[1])[:80])
    return Case("C08/forbid/scaling", h, bounds="symbolic: readings, factor", weight=50)


# --------------------------------------------------------------------------------------------- reductions, diff_helper

def make_reduce_case(fam, prefixes, n, second=False):
    """fam: a family name, or 'points' = every offset-scale spelling (their reductions mostly refuse)"""
    if fam == "points":
        members = [u for u in all_units(prefixes) if oracle_of(u)[0] == "P"]
    else:
        members = family_members(fam, prefixes)

    def h(ctx):
        _fresh(ctx)
        x = ctx.reals("x", (n,))
        xs = elements(x)
        for U in members:
            o = oracle_of(U)
            a = o[1]

            def q():
                return ctx.quantity(x.copy(), U)
            tot = sum((a * v for v in xs[1:]), a * xs[0])
            run = [sum((a * v for v in xs[1:i + 1]), a * xs[0]) for i in range(n)]
            terms = tuple(a * v for v in xs)
            checks = []
            if o[0] == "D":
                checks += [("add.reduce", lambda: np.add.reduce(q()), [(tot, terms)]), ("sum", lambda: np.sum(q()), [(tot, terms)]),
                           ("sum/method", lambda: q().sum(), [(tot, terms)]),
                           ("add.accumulate", lambda: np.add.accumulate(q()), [(r, terms) for r in run]),
                           ("cumsum", lambda: np.cumsum(q()), [(r, terms) for r in run])]
            if n == 2:
                checks.append(("subtract.reduce", lambda: np.subtract.reduce(q()), [(a * xs[0] - a * xs[1], terms)]))
            d1 = [(a * xs[i + 1] - a * xs[i], terms) for i in range(n - 1)]
            checks += [("diff", lambda: np.diff(q()), d1), ("ediff1d", lambda: np.ediff1d(q()), d1)]
            if second and n >= 3:
                d2 = [(a * xs[i + 2] - 2 * a * xs[i + 1] + a * xs[i], terms) for i in range(n - 2)]
                checks.append(("diff(n=2)", lambda: np.diff(q(), n=2), d2))
            # np.ptp works on the bare readings: the comparisons it forks on are the same for every member
            hi, lo = a * xs[0], a * xs[0]
            for v in xs[1:]:
                hi = ite(a * v >= hi, a * v, hi)
                lo = ite(a * v <= lo, a * v, lo)
            checks.append(("ptp", lambda: np.ptp(q()), [(hi - lo, terms)]))
            for label, thunk, wants in checks:
                r = lib(thunk)
                outcome_obs(ctx, f"{label}/{U}", r)
                if r[0] == "ok":
                    grp = "diff_helper" if label.split("/")[0].split("(")[0] in ("diff", "ediff1d", "ptp") else label.split("/")[0]
                    ctx.require(f"{grp}/difference in labelled unit", affine(r[1], wants, True), call=label, unit=U, labelled=label_of(r[1]))
    return Case(f"C08/reduce/{fam}/n{n}", h, bounds="symbolic: readings", weight=len(members))


# --------------------------------------------------------------------------------------------- case table

def _check_table(mods, units):
    """the spellings used here parse, and name the unit the oracle row is written for (by canonical name only)"""
    Unit = mods["unyt"].Unit
    for n in units:
        try:
            u = Unit(n)
        except Exception as e:  # noqa: BLE001
            raise HarnessError(f"C08: unit spelling {n!r} does not parse: {e}")
        canon = str(u.expr)
        if oracle_of(canon) is None or oracle_of(canon) != oracle_of(n):
            raise HarnessError(f"C08: spelling {n!r} resolves to {canon!r}, which the oracle table does not know as the same unit")


def cases(tier, mods):
    prefixes = QUICK_PREFIXES if tier == "quick" else list(SI_EXP)
    units = all_units(prefixes)
    _check_table(mods, units)
    fams = families()
    offs = [u for u in units if oracle_of(u)[0] == "P"]
    out = []
    quick = tier == "quick"
    # conversions
    for A in units:
        for sh in [(), (2,)]:
            out.append(make_conv_case(A, units, sh))
        for origin in ("copy", "deepcopy", "unitcopy"):
            for sh in ([()] if quick else [(), (2,)]):
                out.append(make_conv_case(A, units, sh, origin))
    # additive + multiplicative pair table
    sp = [((), ()), ((2,), (2,))] if quick else [((), ()), ((2,), (2,)), ((), (2,)), ((2,), ())]
    for A in units:
        for fb in fams:
            out.append(make_pair_case(A, fb, prefixes, sp))
    # comparisons, max/min (same-kind pairs; mixed point/difference pairs are not stated by the property)
    for A in units:
        for B in units:
            if same_kind_spec(oracle_of(A), oracle_of(B)) is None:
                continue
            shs = [()]
            if not quick and (A in BASE or A in ALIAS or B in BASE or B in ALIAS):
                shs.append((2,))  # cut for wall time: 2-element readings only where one operand is an unprefixed spelling
            for sh in shs:
                out.append(make_cmp_case(A, B, sh))
                out.append(make_maxmin_case(A, B, sh))
    out.append(make_power_case(offs, [(), (2,)]))
    out.append(make_scaling_case(offs, [(), (2,)]))
    for fb in [f for f in fams if oracle_of(family_members(f, prefixes)[0])[0] == "D"] + ["points"]:
        out.append(make_reduce_case(fb, prefixes, 2))
        if not quick and fb != "points":
            out.append(make_reduce_case(fb, prefixes, 3, second=True))
    return out
