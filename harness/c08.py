"""C08 - offset temperature scales follow point/difference semantics or refuse.

Scales and offsets are the table's (concrete); every reading is a z3 real. The oracle is written here, in kelvin,
with exact rationals: a reading x of unit U stands for K_U(x) = a_U*x + b_U (b_U = 0 for K, R, the delta units and
their prefixed forms). The unit a result is *labelled* with is looked up BY NAME in this table, never through
unyt's base_value/base_offset, so a number computed on one scale and labelled with another is visible.
"""
import operator
from fractions import Fraction as Fr

import numpy as np

from .common import And, Case, HarnessError, Iff, Or, as_ufunc_global, band, call, close, elements, ite, payload

LEVEL = "other"
MANIFEST = dict(
    category="other",
    text=("Bounded symbolic execution of the real temperature arithmetic (symx): for every enumerated ordered pair of "
          "temperature units (K, R, degC, degF, delta_degC, delta_degF, the spellings °C/°F and the SI-prefixed forms of "
          "K, degC, delta_degC) x operation x call form - including every placement of an out= target (either operand itself, "
          "a reversed view of it, a quantity of another unit, a plain ndarray), one object used as both operands, every provenance "
          "of the operands' Unit objects (separately built, one Unit object passed twice, .units borrowed from the other operand, "
          "reading * unit symbol, elements / slices / a reversed view of one array, deep-copied operands, deep-copied Units) and every operand kind (unyt_quantity, 0-d "
          "unyt_array, array, mixed scalar/array) - the "
          "readings are z3 reals and z3 proves per path that a returned value equals the affine (kelvin) result expressed in "
          "the unit the result is labelled with, that conversions are the affine maps on every route (to / in_units / to_value / "
          "convert_to_units / Unit.get_conversion_factor with string, Unit and borrowed-unit targets; in_base / in_mks / in_cgs / "
          "convert_to_base / _mks / _cgs / get_base_equivalent for shipped and user-defined unit systems named by string, by "
          "object or through the registry; two- to six-step conversion chains; implicit conversions by item assignment, np.copyto "
          "and list coercion), that np.diff / np.ediff1d with prepend/append/to_begin/to_end given as quantities of another difference "
          "unit return the affine differences, and that every forbidden combination raised - including divmod in every spelling "
          "(driven through the real __array_ufunc__ by an object-dtype stand-in for np.divmod) and the Unit-level product / quotient / "
          "power of an offset scale with the identical or an equal Unit object; any model is replayed on plain unyt."),
    design="DESIGN.md section 4 C08",
    technique="symbolic execution of the real Python code over z3 real terms; SMT (QF_LRA/NRA) obligations per path; counterexample replay")
EXPLANATION = (
    "The real unyt_array.__array_ufunc__ (with _preserve_units, _difference_units, the K/R+offset guard, the delta_ guard, "
    "the multiply/divide guard), Unit.__mul__/__truediv__/__pow__, _get_conversion_factor/in_units/convert_to_units/to_value, "
    "in_base/in_mks/in_cgs/convert_to_base/convert_to_mks/convert_to_cgs, Unit.get_base_equivalent, __setitem__, the np.copyto "
    "handler, _coerce_iterable_units and diff_helper (np.diff, np.ediff1d, np.ptp) are executed on quantities whose readings are "
    "z3 reals; the units are the table's. An independent oracle maps a reading x of unit U to kelvin, a_U*x+b_U (exact rationals "
    "273.15, 459.67, 5/9, 10**n); the oracle row of a result is chosen by the NAME of the unit the result carries; the temperature "
    "base unit of a unit system comes from a table written here. Per path z3 decides pc & not(P) for: "
    "(1) conversion A->B equals (a_A x + b_A - b_B)/a_B on the routes to / in_units / to_value / convert_to_units with the target "
    "given as a string, as a Unit object or as the .units of another quantity, and through Unit.get_conversion_factor "
    "(new = old*factor - offset); for quantities that are fresh, copied, deep-copied or carry a copied Unit; "
    "(2) conversion to the temperature base unit of a unit system (mks, cgs, imperial, galactic, solar, geometrized, and systems "
    "defined here whose temperature base is degC, degF, mK, mdegC or delta_degF) equals the affine map and is labelled with that base "
    "unit, on in_base / convert_to_base with the system named by string, passed as a UnitSystem, passed as keyword, or taken from the "
    "registry the quantity lives in, on in_mks / in_cgs / convert_to_mks / convert_to_cgs / the no-argument defaults, and on "
    ".to(units.get_base_equivalent(...)); then one object is converted in place to the base of every system in turn and back "
    "(history in one path); "
    "(3) conversion chains A->B->C, A->B->C->A by value and A->B->C1->C2->..->A in place on one object equal the direct affine map; "
    "(4) implicit conversions (d[:] = q, d[i] = q, np.copyto with and without where=, a list of two quantities) leave the affine "
    "image of the reading in the unit the holder carries; "
    "(5) point+-difference, difference+point, difference+-difference, point-point (operator, ufunc, in-place, outer, "
    "reduce/accumulate forms, np.diff, np.ediff1d, np.ptp) either raise or return the affine result in the labelled unit "
    "(differences must be labelled with a difference unit) - for EVERY placement of the result: no out=, out= a fresh quantity of "
    "the right / left / a third unit, out= a plain ndarray, out=(o,), out positional, out= the left operand, out= the right operand, "
    "out= a reversed view of either operand, and one object passed as both operands (and as out=); for operands of one unit also "
    "every PROVENANCE of their Unit objects (unyt tests `u0 is u1` before `u0 != u1`): one Unit object passed to both constructors, "
    "the .units of the other operand, reading * one unit symbol, two elements / two slices of one array, an array and its reversed "
    "view - in operator, ufunc and in-place form; for EVERY pair also operands restored by copy.deepcopy (both / the left one) and "
    "operands built on deep-copied Units (new registry; dimensions equal to but not identical with the module singletons); and every operand KIND: unyt_quantity, 0-d unyt_array, 2-element array and the "
    "mixed scalar/array shapes (a reading that is exactly 0 is one of the values z3 ranges over: np.count_nonzero on the payload "
    "forks the path); reductions and accumulations with "
    "out= a fresh target of the same / another unit, a plain ndarray and (accumulate) the operand itself; both the returned value "
    "and the target must hold the result; "
    "np.diff / np.ediff1d of difference-scale arrays with prepend / append / to_begin / to_end given as quantities of another "
    "difference unit (by keyword, positionally, as 0-d quantity and as 1-element array) return the affine differences in the labelled unit; "
    "(6) comparisons and max/min of same-kind operands agree with the kelvin comparison (max/min with the same out= placements, "
    "provenances and operand kinds); "
    "(7) every forbidden call (two different offset scales in add/subtract/comparison/max/min; multiply, divide, floor-divide, "
    "square, sqrt, cbrt, power, reciprocal, product/quotient reductions of an offset-scale quantity, in every form including out= "
    "an operand, a third-unit quantity or a plain ndarray; divmod as builtin divmod(), np.divmod, __rdivmod__ and with out=(q, r) - "
    "NumPy has no object-dtype loop for np.divmod, so in symbolic mode the real unyt_array.__array_ufunc__ is handed a stand-in that is "
    "equal, hash-equal and (through the module globals of unyt.array) identical to np.divmod and applies SymReal.__divmod__ element-wise; "
    "all of these also for operands sharing one Unit object in each provenance; multiplying / dividing a reading by its own Unit object "
    "or an equal one; building a quantity whose unit is u*u, u/u, u**p, 1/u, u/delta_degC, K/u, u*m, m/u, u/s for an offset scale u "
    "with the identical and with an equal Unit object) raised on that path, i.e. for all readings.")
BOUNDS = {
    "quick": "units {K, R, degC, degF, delta_degC, delta_degF, °C, °F} + prefixes {m, k} of K/degC/delta_degC (14 spellings); "
             "all ordered pairs; additive and multiplicative ops in operator/ufunc/in-place/outer form and 10 out= placements for add/subtract (8 on scalars: no views; 5 for the multiplicative refusals) on "
             "scalar, 2-element and mixed scalar/array readings, operands as unyt_quantity and as 0-d unyt_array; for same-unit pairs 5-7 "
             "provenances of the shared Unit object x operator/ufunc/in-place; divmod in 4 spellings for every pair with an offset scale "
             "(per unit x unit-family case: the prefixed forms of one base unit share a case); one object "
             "as both operands; multiplication/division by bare numbers, dimensionless and metre quantities and Unit objects; the power "
             "family with exponents {2, 3, -1, -2, 1/2, 1/3, 3/2, -1/2} (out= fresh and out= the operand); comparisons and max/min "
             "(6 out= placements) on scalar readings; reductions/diff/ediff1d/ptp on 2-element arrays incl. out= targets; diff/ediff1d with quantity-valued prepend/append/to_begin/"
             "to_end of units {K, R, delta_degF, mK} (8 call spellings); Unit-level algebra of every offset spelling (22 forms); conversions "
             "on 4 routes x string targets (scalar and 2-element readings; copies: scalar), 5 routes x Unit / borrowed-unit targets "
             "(2-element); base-unit conversion: 8 unit systems (mks, cgs, imperial, galactic + 4 defined here) x 9-15 routes, scalar "
             "and 2-element, followed by an 8-step in-place history; chains: every middle unit x thirds {degF, mdegC, R}, scalar; "
             "implicit conversions: 5 routes x every holder unit",
    "thorough": "same with all 22 SI prefix spellings (74 unit spellings, 5476 ordered pairs); additionally "
                "comparisons and max/min also on 2-element readings where at least one operand is an unprefixed "
                "spelling (prefixed x prefixed pairs: scalar readings only - cut for wall time), reductions on 3-element "
                "arrays, second differences; Unit-object targets also on scalar readings; 11 unit systems; chains through all 74 middle "
                "units with thirds {degF, mdegC, R, delta_degC}; the out= placements of max/min only for pairs of the 14 quick "
                "spellings (cut for wall time)",
}
OUTSIDE = ("IEEE rounding/overflow (A1); integer/complex payloads (C17). Not obliged because the property does not state them: "
           "difference - point, point + point on the SAME offset scale (sum/mean of readings), comparisons/max/min of a point "
           "with a difference, remainder/mod/fmod, powers 0 and 1, ufuncs outside add/subtract/multiply/divide/power/"
           "comparison/max-min; the `**` operator with exponents 2, 0.5, -1 (ndarray.__pow__ turns them into np.square/np.sqrt/"
           "np.reciprocal for float payloads only; those ufuncs and np.power with these exponents are checked); divmod of two difference-scale operands (value and units are C01/C04's; "
           "here divmod is only obliged to refuse offset-scale operands); prepend/append/to_begin/to_end given as offset-scale (point) "
           "quantities. Whether an *allowed* combination is refused is not judged (value-if-returned); an implicit "
           "conversion may refuse. out= with where= masks, out= targets of integer dtype, and partially overlapping views other than "
           "the reversed view are not enumerated. The planck unit system (temperature base T_pl is not a unit of this property) and "
           "equivalence= conversions (C09) are outside. Units are the default registry's (or a registry that differs only in its "
           "unit system); user-defined offset units are C03's subject. Guards on the dtype of an out= target are followed under "
           "assumption A4 (an object payload stands for float64).")
ASSUMPTIONS = [
    "C08: np.divmod has no object-dtype loop; in symbolic mode the ufunc object handed to the real unyt_array.__array_ufunc__ is a "
    "stand-in equal, hash-equal and (via the module globals of unyt.array) identical to np.divmod whose call applies "
    "SymReal.__divmod__ element-wise (plain conformance runs and replays use divmod() / np.divmod / __rdivmod__)",
]
CONFORM = {"quick": 100000, "thorough": 600}

# --------------------------------------------------------------------------------------------- oracle (independent of unyt)
C0 = Fr("273.15")
F0 = Fr("459.67")
R9 = Fr(5, 9)
BASE = {
    "K": ("D", Fr(1), Fr(0)),
    "R": ("D", R9, Fr(0)),
    "degC": ("P", Fr(1), C0),
    "degF": ("P", R9, F0 * R9),
    "delta_degC": ("D", Fr(1), Fr(0)),
    "delta_degF": ("D", R9, Fr(0)),
}
ALIAS = {"°C": "degC", "°F": "degF"}
PREFIXABLE = ("K", "degC", "delta_degC")
SI_EXP = {"Y": 24, "Z": 21, "E": 18, "P": 15, "T": 12, "G": 9, "M": 6, "k": 3, "h": 2, "da": 1, "d": -1, "c": -2, "m": -3,
          "u": -6, "µ": -6, "μ": -6, "n": -9, "p": -12, "f": -15, "a": -18, "z": -21, "y": -24}
QUICK_PREFIXES = ["m", "k"]


def oracle_of(name):
    """(kind, a, b) of a unit name: K(x) = a*x + b; kind 'P' point scale (offset), 'D' difference/absolute scale"""
    if name in BASE:
        return BASE[name]
    if name in ALIAS:
        return BASE[ALIAS[name]]
    for p, e in SI_EXP.items():
        if name.startswith(p) and name[len(p):] in PREFIXABLE:
            k, a, b = BASE[name[len(p):]]
            # x [p U] is the reading p*x of U for a difference; for the offset scale the zero point stays where it is
            return (k, a * Fr(10) ** e, b)
    return None


def family_members(fam, prefixes):
    if fam.startswith("p*"):
        return [p + fam[2:] for p in prefixes]
    return [fam]


def all_units(prefixes):
    return list(BASE) + list(ALIAS) + [p + b for b in PREFIXABLE for p in prefixes]


def families():
    return list(BASE) + list(ALIAS) + ["p*" + b for b in PREFIXABLE]


def same_scale(oa, ob):
    return oa[1] == ob[1] and oa[2] == ob[2]


# --------------------------------------------------------------------------------------------- helpers

def _fresh(ctx):
    """A7 also in replay/conformance mode: several cases share one interpreter there"""
    from symx import shims
    shims.clear_caches(ctx.mods)


def lib(f):
    """call into unyt; its exceptions become values. A gap of the engine is never read as a refusal by unyt."""
    r = call(f)
    if r[0] == "raise":
        e = r[1]
        m = str(e)
        if isinstance(e, HarnessError) or "loop of ufunc does not support" in m or "not supported for the input types" in m or "SymReal" in m or "SymBool" in m:
            raise HarnessError(f"engine gap, not a refusal of unyt: {type(e).__name__}: {m[:200]}")
    return r


def kel(o, v):
    return o[1] * v + o[2]


def label_of(res):
    u = getattr(res, "units", None)
    if u is None:
        return None
    return str(u.expr)


def affine(res, wants, need_diff):
    """res carries a unit of the table and its numbers, read in THAT unit, are the kelvin values `wants`
    (list of (kelvin value, band terms)); need_diff: the label must be a difference unit"""
    o = oracle_of(label_of(res) or "")
    if o is None:
        return False
    if need_diff and o[0] != "D":
        return False
    vals = payload(res)
    if len(vals) != len(wants):
        return False
    return And(*[close(kel(o, v), w, tol=0, extra=band(o[2], *bt)) for v, (w, bt) in zip(vals, wants)])


def bshape(sa, sb):
    return np.broadcast_shapes(sa, sb)


def bcast(x, y):
    xs, ys = np.broadcast_arrays(x, y)
    return elements(xs), elements(ys)


def tagof(sa, sb=None):
    t = "x".join(map(str, sa)) or "0"
    if sb is not None and sb != sa:
        t += "," + ("x".join(map(str, sb)) or "0")
    return t


def outcome_obs(ctx, label, r):
    if r[0] == "raise":
        ctx.observe(label, "raise:" + type(r[1]).__name__)
    else:
        v = r[1]
        if isinstance(v, tuple):
            v = v[0]
        ctx.observe(label, payload(v))


def zeros(ctx, shape, unit):
    return ctx.quantity(ctx.const_array(np.zeros(shape)), unit)


# --------------------------------------------------------------------------------------------- conversions

ROUTES = ("to", "in_units", "to_value", "convert_to_units")
# the target argument may be spelled as a string, as a Unit object, or borrowed from another quantity
TARGET_FORMS = ("str", "Unit", "units of a quantity")


def target_arg(ctx, B, tform):
    unyt = ctx.mods["unyt"]
    if tform == "Unit":
        return unyt.Unit(B)
    if tform == "units of a quantity":
        return ctx.quantity(ctx.const_array(np.ones(())), B).units
    return B


def convert(q, tgt, route):
    if route == "to":
        r = q.to(tgt)
        return payload(r), label_of(r)
    if route == "in_units":
        r = q.in_units(tgt)
        return payload(r), label_of(r)
    if route == "to_value":
        return elements(q.to_value(tgt)), None
    if route == "get_conversion_factor":
        # the documented contract of Unit.get_conversion_factor: new = old*factor - offset (offset None = 0)
        f, o = q.units.get_conversion_factor(tgt)
        return [v * f - (0.0 if o is None else o) for v in payload(q)], None
    c = q.copy()
    c.convert_to_units(tgt)
    return payload(c), label_of(c)


def conv_want(oA, oB, xs):
    """readings xs of A expressed in B (exact affine map through kelvin), and the rounding band of each"""
    want = [(kel(oA, v) - oB[2]) / oB[1] for v in xs]
    bands = [band(oA[1] * v / oB[1], oA[2] / oB[1], oB[2] / oB[1]) for v in xs]
    return want, bands


KMAX = C0  # the largest zero-point shift of the table, in kelvin (degC 273.15; degF 255.37)


def judge_conv(ctx, label, oA, B, xs, r, via_offset=False, **info):
    """r = lib(...) of a thunk returning (numbers, label or None): must not raise, numbers = affine map A->B, label = B.
    via_offset: the value reached B through an offset scale (a chain of conversions), so the rounding band also holds the
    zero-point shift it carried on the way, whatever A and B are"""
    oB = oracle_of(B)
    if r[0] == "raise":
        ctx.require("convert/converts", False, target=B, exc=repr(r[1])[:120], **info)
        return None
    vals, lab = r[1]
    want, bands = conv_want(oA, oB, xs)
    if via_offset:
        bands = [b + band(KMAX / oB[1]) for b in bands]
    ok = And(*[close(v, w, tol=0, extra=e) for v, w, e in zip(vals, want, bands)]) if len(vals) == len(want) else False
    if lab is not None:
        ol = oracle_of(lab)
        ok = And(ok, ol is not None and ol == oB)
    ctx.require(label, ok, target=B, labelled=lab, **info)
    return vals


def _obtain(ctx, x, A, origin):
    """the quantity to convert, obtained the way a program might have obtained it: a copied or deep-copied quantity
    (new Unit object, for deepcopy a new registry) must convert exactly like a freshly built one"""
    import copy as _copy
    q = ctx.quantity(x.copy(), A)
    if origin == "copy":
        return q.copy()
    if origin == "deepcopy":
        return _copy.deepcopy(q)
    if origin == "unitcopy":
        return ctx.quantity(x.copy(), q.units.copy(deep=True))
    return q


def make_conv_case(A, targets, shape, origin="fresh", tform="str"):
    oA = oracle_of(A)
    routes = ROUTES + (("get_conversion_factor",) if tform != "str" else ())

    def h(ctx):
        _fresh(ctx)
        x = ctx.reals("x", shape)
        xs = elements(x)
        q0 = None if origin == "fresh" else _obtain(ctx, x, A, origin)  # conversions never touch their input
        for B in targets:
            q = q0 if q0 is not None else _obtain(ctx, x, A, origin)
            for route in routes:
                r = lib(lambda: convert(q, target_arg(ctx, B, tform), route))
                vals = judge_conv(ctx, "convert/affine map", oA, B, xs, r, route=route, shape=shape)
                if vals is not None:
                    ctx.observe(f"{B}/{route}", vals)
            ctx.require("convert/input untouched", And(oracle_of(label_of(q) or "") == oA, *[close(v, w, tol=0) for v, w in zip(payload(q), xs)]), target=B)
    cid = f"C08/conv/{A}/shape{tagof(shape)}" + ("" if origin == "fresh" else "/" + origin) + ("" if tform == "str" else "/target=" + tform.replace(" ", "_"))
    return Case(cid, h, bounds="symbolic: readings", weight=len(targets))


# ---- conversion to the base unit of a unit system (in_base, in_mks, in_cgs, convert_to_base/mks/cgs, get_base_equivalent)
# temperature base unit of the systems unyt ships (independent table, from the documentation of unyt.unit_systems) and of
# five systems defined here, whose temperature base is an offset scale, a prefixed unit or a delta unit
SYSTEM_T = {"mks": "K", "cgs": "K", "imperial": "R", "galactic": "K", "solar": "K", "geometrized": "K"}
USER_SYSTEM_T = {"xsysc": "degC", "xsysf": "degF", "xsysmk": "mK", "xsysdf": "delta_degF", "xsysmc": "mdegC"}
QUICK_SYSTEMS = ("mks", "cgs", "imperial", "galactic", "xsysc", "xsysf", "xsysmk", "xsysdf")


def _system(ctx, name):
    """the UnitSystem object of a name (user systems are (re)registered: the registry of systems is process-global)"""
    US = ctx.mods["US"]
    if name in USER_SYSTEM_T:
        return US.UnitSystem(name, "m", "kg", "s", temperature_unit=USER_SYSTEM_T[name])
    return US.unit_system_registry[name]


def base_routes(ctx, x, A, sysname):
    """(route, thunk -> (numbers, label)) for 'A expressed in the temperature base unit of system sysname'.
    The system is named by string, passed as a UnitSystem object, or is the unit system of the registry the quantity
    lives in (argument None)."""
    unyt = ctx.mods["unyt"]

    def q():
        return ctx.quantity(x.copy(), A)

    def qreg():
        reg = ctx.registry([], unit_system=sysname)
        return ctx.quantity(x.copy(), A, reg=reg)

    def fn(mk, meth, args):
        def g():
            r = getattr(mk(), meth)(*args())
            return payload(r), label_of(r)
        return g

    def inplace(mk, meth, args):
        def g():
            c = mk()
            ret = getattr(c, meth)(*args())
            if ret is not None:
                raise HarnessError(f"{meth} is documented to work in place and return None")
            return payload(c), label_of(c)
        return g

    def via_equivalent(mk, meth, args):
        def g():
            c = mk()
            u = getattr(c.units, meth)(*args())
            r = c.to(u)
            return payload(r), label_of(r)
        return g

    def by_name():
        return (sysname,)

    def by_object():
        return (_system(ctx, sysname),)

    def nothing():
        return ()
    routes = [("in_base(name)", fn(q, "in_base", by_name)), ("in_base(UnitSystem)", fn(q, "in_base", by_object)),
              ("in_base(unit_system=name)", lambda: (lambda r: (payload(r), label_of(r)))(q().in_base(unit_system=sysname))),
              ("in_base() in a registry of that system", fn(qreg, "in_base", nothing)),
              ("convert_to_base(name)", inplace(q, "convert_to_base", by_name)),
              ("convert_to_base(UnitSystem)", inplace(q, "convert_to_base", by_object)),
              ("convert_to_base() in a registry of that system", inplace(qreg, "convert_to_base", nothing)),
              ("to(get_base_equivalent(name))", via_equivalent(q, "get_base_equivalent", by_name)),
              ("to(get_base_equivalent()) in a registry of that system", via_equivalent(qreg, "get_base_equivalent", nothing))]
    if sysname == "mks":
        routes += [("in_mks()", fn(q, "in_mks", nothing)), ("convert_to_mks()", inplace(q, "convert_to_mks", nothing)),
                   ("in_base() default", fn(q, "in_base", nothing)), ("convert_to_base() default", inplace(q, "convert_to_base", nothing)),
                   ("to(get_mks_equivalent())", via_equivalent(q, "get_mks_equivalent", nothing)),
                   ("in_base(None)", lambda: (lambda r: (payload(r), label_of(r)))(q().in_base(None)))]
    if sysname == "cgs":
        routes += [("in_cgs()", fn(q, "in_cgs", nothing)), ("convert_to_cgs()", inplace(q, "convert_to_cgs", nothing)),
                   ("to(get_cgs_equivalent())", via_equivalent(q, "get_cgs_equivalent", nothing))]
    return routes


def make_base_case(A, systems, shape):
    oA = oracle_of(A)
    allsys = dict(SYSTEM_T)
    allsys.update(USER_SYSTEM_T)

    def h(ctx):
        _fresh(ctx)
        x = ctx.reals("x", shape)
        xs = elements(x)
        for name in systems:
            if name in USER_SYSTEM_T:
                _system(ctx, name)
            T = allsys[name]
            for route, thunk in base_routes(ctx, x, A, name):
                r = lib(thunk)
                vals = judge_conv(ctx, "base conversion/affine map", oA, T, xs, r, route=route, system=name, shape=shape)
                if vals is not None:
                    ctx.observe(f"{name}/{route}", vals)
        # history: the same quantity converted to the base of one system after another, in place and by value
        c = ctx.quantity(x.copy(), A)
        via = False
        for name in systems:
            T = allsys[name]
            via = via or oracle_of(T)[0] == "P"
            r = lib(lambda: (c.convert_to_base(name), (payload(c), label_of(c)))[1])
            judge_conv(ctx, "base conversion/affine map", oA, T, xs, r, via_offset=via, route="convert_to_base chain on one object", system=name)
            r = lib(lambda: (lambda b: (payload(b), label_of(b)))(c.in_base(name).to(A)))
            judge_conv(ctx, "base conversion/round trip", oA, A, xs, r, via_offset=via, route="in_base(name).to(source unit) after the chain", system=name)
    return Case(f"C08/base/{A}/shape{tagof(shape)}", h, bounds="symbolic: readings", weight=len(systems) * 2)


# ---- conversion chains: a converted quantity converts on like a freshly built one (two and three steps in one path)

def make_chain_case(A, units, shape, thirds):
    oA = oracle_of(A)

    def h(ctx):
        _fresh(ctx)
        x = ctx.reals("x", shape)
        xs = elements(x)
        for B in units:
            # by value: A -> B -> C, and back to A
            r1 = lib(lambda: ctx.quantity(x.copy(), A).to(B))
            if r1[0] == "raise":
                ctx.require("convert/converts", False, route="to", target=B, exc=repr(r1[1])[:120])
                continue
            qB = r1[1]
            pB = oracle_of(B)[0] == "P"
            for C in thirds:
                pC = oracle_of(C)[0] == "P"
                r = lib(lambda: (lambda v: (payload(v), label_of(v)))(qB.in_units(C)))
                judge_conv(ctx, "convert chain/affine map", oA, C, xs, r, via_offset=pB, route=f"to({B}).in_units({C})")
                r = lib(lambda: (lambda v: (payload(v), label_of(v)))(qB.to(C).to(A)))
                judge_conv(ctx, "convert chain/round trip", oA, A, xs, r, via_offset=pB or pC, route=f"to({B}).to({C}).to({A})")
            # in place on ONE object: A -> B -> C -> ... -> A
            c = ctx.quantity(x.copy(), A)
            via = False
            for step, C in enumerate([B] + list(thirds) + [A]):
                r = lib(lambda: (c.convert_to_units(C), (payload(c), label_of(c)))[1])
                judge_conv(ctx, "convert chain/affine map", oA, C, xs, r, via_offset=via, route=f"convert_to_units step {step} of a chain through {B}")
                via = via or oracle_of(C)[0] == "P"
    return Case(f"C08/chain/{A}/shape{tagof(shape)}", h, bounds="symbolic: readings", weight=len(units))


# ---- implicit conversions: places where unyt converts a temperature quantity on the caller's behalf

def make_implicit_case(A, units):
    """a reading x of A stored into / merged with quantities of unit B must arrive as the affine image of x in B"""
    oA = oracle_of(A)

    def h(ctx):
        _fresh(ctx)
        unyt = ctx.mods["unyt"]
        x = ctx.reals("x", (2,))
        xs = elements(x)
        x0 = ctx.real("x0")

        def arr(B):
            return zeros(ctx, (2,), B)

        def setitem(B, whole):
            def g():
                d = arr(B)
                if whole:
                    d[:] = ctx.quantity(x.copy(), A)
                    return payload(d), label_of(d)
                d[1] = ctx.quantity(x0, A)
                return payload(d)[1:], label_of(d)
            return g

        def copyto(B):
            def g():
                d = arr(B)
                np.copyto(d, ctx.quantity(x.copy(), A))
                return payload(d), label_of(d)
            return g

        def listed(B):
            def g():
                # a list of quantities is brought to the unit of its first element
                r = unyt.unyt_array([ctx.quantity(ctx.const_array(np.zeros(())), B), ctx.quantity(x0, A)])
                return payload(r)[1:], label_of(r)
            return g
        def copyto_where(B):
            def g():
                d = arr(B)
                np.copyto(d, ctx.quantity(x.copy(), A), where=np.array([True, True]))
                return payload(d), label_of(d)
            return g
        for B in units:
            for route, thunk, vals in (("d[:] = q", setitem(B, True), xs), ("d[1] = q", setitem(B, False), [x0]),
                                       ("np.copyto(d, q)", copyto(B), xs), ("np.copyto(d, q, where=all)", copyto_where(B), xs),
                                       ("unyt_array([quantity of B, q])", listed(B), [x0])):
                r = lib(thunk)
                if r[0] == "raise":
                    # a refusal is allowed here (value-if-returned); it is recorded for conformance
                    ctx.observe(f"{B}/{route}", "raise:" + type(r[1]).__name__)
                    continue
                # judged in the unit the holder carries afterwards (np.copyto without where= relabels the holder with the
                # source unit, the other routes keep B): the numbers, read in THAT unit, are the affine image of x
                lab = r[1][1]
                if oracle_of(lab or "") is None:
                    ctx.require("implicit conversion/holder keeps a temperature unit", False, route=route, holder=B, labelled=lab)
                    continue
                got = judge_conv(ctx, "implicit conversion/affine map", oA, lab, vals, r, route=route, holder=B)
                ctx.observe(f"{B}/{route}", got)
    return Case(f"C08/implicit/{A}", h, bounds="symbolic: readings", weight=len(units))


# --------------------------------------------------------------------------------------------- operand provenance, divmod

class _ObjDivmod:
    """np.divmod has no object-dtype loop, so NumPy refuses a symbolic payload before unyt's code is reached. In symbolic
    mode the ufunc object handed to the real unyt_array.__array_ufunc__ is this stand-in: equal and hash-equal to np.divmod
    (so `ufunc in multiple_output_operators`, `_ufunc_registry[ufunc]`, `ufunc in (modf, divmod_)` answer as for the real
    one; identity tests through common.as_ufunc_global); its call applies SymReal.__divmod__ element-wise. unyt's own code
    runs unchanged; plain runs (conformance, replay) use the builtin divmod / np.divmod / __rdivmod__."""
    real = np.divmod

    def __init__(self):
        self.py = np.frompyfunc(lambda a, b: divmod(a, b), 2, 2)

    def __eq__(self, o):
        return o is self.real or o is self

    def __hash__(self):
        return hash(self.real)

    def __getattr__(self, k):
        return getattr(self.real, k)

    def __call__(self, a, b, out=None, **kw):
        q, r = self.py(a, b)
        if out is not None and any(o is not None for o in out):
            res = []
            for o, v in zip(out, (q, r)):
                if o is not None:
                    o[...] = v
                    res.append(o)
                else:
                    res.append(v)
            return tuple(res)
        return q, r


_OBJ_DIVMOD = _ObjDivmod()
DIVMOD_FORMS = ("op", "ufunc", "reflected", "out")


def do_divmod(ctx, a, b, form, out=None):
    """divmod(a, b) in one of its spellings; all of them are ONE call of unyt_array.__array_ufunc__(np.divmod, '__call__', a, b)
    (ndarray.__divmod__/__rdivmod__ are np.divmod), which is what the symbolic mode drives directly"""
    if not ctx.symbolic:
        if form == "op":
            return divmod(a, b)
        if form == "reflected":
            return b.__rdivmod__(a)
        if form == "out":
            return np.divmod(a, b, out=out)
        return np.divmod(a, b)
    kw = dict(out=out) if form == "out" else {}
    with as_ufunc_global(ctx.mods, _OBJ_DIVMOD):
        return a.__array_ufunc__(_OBJ_DIVMOD, "__call__", a, b, **kw)


def joined(*arrs):
    els = [e for a in arrs for e in elements(a)]
    o = np.empty((len(els),), dtype=arrs[0].dtype)
    for i, e in enumerate(els):
        o[i] = e
    return o


def as_array(ctx, x, A):
    """the operand-KIND axis: readings held in a unyt_array also where ctx.quantity would build a unyt_quantity (shape ())"""
    return ctx.mods["unyt"].unyt_array(x.copy(), A)


def built(mk):
    """the operands of a call, built by thunk mk: a failure to BUILD them is never read as unyt refusing the call"""
    r = call(mk)
    if r[0] == "raise":
        raise HarnessError(f"operands could not be built: {type(r[1]).__name__}: {str(r[1])[:200]}")
    return r[1]


def copied_pairs(ctx, A, B, x, y):
    """provenance for ANY pair of units: operands restored by copy.deepcopy (new Unit objects in a new registry, dimensions that are
    equal to but not identical with the module singletons) and operands built on a deep-copied Unit. (provenance, thunk -> (a, b))"""
    import copy as _copy

    def deep():
        return _copy.deepcopy(ctx.quantity(x.copy(), A)), _copy.deepcopy(ctx.quantity(y.copy(), B))

    def unitcopy():
        unyt = ctx.mods["unyt"]
        return ctx.quantity(x.copy(), unyt.Unit(A).copy(deep=True)), ctx.quantity(y.copy(), unyt.Unit(B).copy(deep=True))

    def left_deep():
        return _copy.deepcopy(ctx.quantity(x.copy(), A)), ctx.quantity(y.copy(), B)
    return [("deep-copied operands", deep), ("operands on deep-copied Units", unitcopy), ("deep-copied left operand", left_deep)]


def operand_pairs(ctx, A, B, x, y, separate=True):
    """the PROVENANCE axis of a binary call: how the two operands came by their Unit objects. unyt tests units by identity
    first ('is' before '=='), so operands that share one Unit object walk other branches than separately built ones.
    (provenance, thunk -> (a, b), (xs, ys)); everything but 'separately built' needs A == B."""
    unyt = ctx.mods["unyt"]
    xs, ys = bcast(x, y)
    prov = []
    if separate:
        prov.append(("separately built", lambda: (ctx.quantity(x.copy(), A), ctx.quantity(y.copy(), B)), (xs, ys)))
    if A != B:
        return prov

    def one_unit():
        u = unyt.Unit(A)
        return ctx.quantity(x.copy(), u), ctx.quantity(y.copy(), u)

    def borrowed():
        a = ctx.quantity(x.copy(), A)
        return a, ctx.quantity(y.copy(), a.units)

    def symbol():
        # the spelling `reading * unit symbol` (unyt.degC, unyt.degF ... are module-level Unit objects)
        u = unyt.Unit(A)
        return x.copy() * u, y.copy() * u
    prov += [("one Unit object", one_unit, (xs, ys)), ("unit borrowed from the other operand", borrowed, (xs, ys)),
             ("reading * one unit symbol", symbol, (xs, ys))]
    if x.shape == () and y.shape == ():
        def elems():
            arr = ctx.quantity(joined(x, y), A)
            return arr[0], arr[1]
        prov.append(("elements of one array", elems, (xs, ys)))
    if x.shape == (2,) and y.shape == (2,):
        def slices():
            arr = ctx.quantity(joined(x, y), A)
            return arr[:2], arr[2:]

        def view():
            a = ctx.quantity(x.copy(), A)
            return a, a[::-1]
        exs = elements(x)
        prov += [("slices of one array", slices, (xs, ys)), ("an array and its reversed view", view, (exs, exs[::-1]))]
    if x.shape == y.shape:
        def twice():
            a = ctx.quantity(x.copy(), A)
            return a, a
        exs = elements(x)
        prov.append(("one object twice", twice, (exs, exs)))
    return prov


# --------------------------------------------------------------------------------------------- additive pair table

def additive_spec(op, oA, oB):
    """what the property says about A op B: 'raise' | None (not stated) | (kind of oracle)"""
    kA, kB = oA[0], oB[0]
    if kA == "P" and kB == "P":
        if not same_scale(oA, oB):
            return "raise"
        return "pp" if op == "sub" else None
    if kA == "P":
        return "pd"
    if kB == "P":
        return "dp" if op == "add" else None
    return "dd"


def additive_wants(spec, op, oA, oB, xs, ys):
    sg = 1 if op == "add" else -1
    out = []
    for x, y in zip(xs, ys):
        ax, by = oA[1] * x, oB[1] * y
        if spec == "pd":
            out.append((ax + oA[2] + sg * by, (ax, by, oA[2])))
        elif spec == "dp":
            out.append((ax + by + oB[2], (ax, by, oB[2])))
        elif spec == "dd":
            out.append((ax + sg * by, (ax, by)))
        elif spec == "pp":
            out.append((ax - by, (ax, by)))
    return out, spec in ("dd", "pp")


ADD_OPS = {"add": (operator.add, operator.iadd, "add"), "sub": (operator.sub, operator.isub, "subtract")}


def third_unit(A, B):
    """a temperature unit that is neither operand's: an out= target that has to be relabelled"""
    for u in ("R", "K", "delta_degF"):
        if u not in (A, B):
            return u


def out_target_forms(ctx, uf, A, B, x, y, pairs, tail=False):
    """the out= axis of a binary ufunc call uf(a [A], b [B], out=...): WHERE the result is written must not change it.
    Targets: the left operand itself, the right operand itself, a reversed view of either operand (overlapping memory in
    another order), a fresh quantity of A's unit / of a third temperature unit (B's unit is the plain 'out' form), a plain
    ndarray; with tail=True also the one-element tuple spelling out=(o,) and out= given positionally.
    Every thunk returns the objects that must hold the result: the returned value and, where it is a quantity that unyt
    relabels, the target. (form, thunk, pairs)"""
    sa, sb = x.shape, y.shape
    bs = bshape(sa, sb)

    def qa():
        return ctx.quantity(x.copy(), A)

    def qb():
        return ctx.quantity(y.copy(), B)
    forms = []
    if bs == sa:
        def out_left():
            c = qa()
            r = uf(c, qb(), out=c)
            return (r, c)
        forms.append(("out=left operand", out_left, pairs))
    if bs == sb:
        def out_right():
            c = qb()
            r = uf(qa(), c, out=c)
            return (r, c)
        forms.append(("out=right operand", out_right, pairs))
    if bs == sa and len(sa) == 1:
        def out_lview():
            c = qa()
            v = c[::-1]
            r = uf(c, qb(), out=v)
            return (r, v)
        forms.append(("out=reversed view of left operand", out_lview, pairs))
    if bs == sb and len(sb) == 1:
        def out_rview():
            c = qb()
            v = c[::-1]
            r = uf(qa(), c, out=v)
            return (r, v)
        forms.append(("out=reversed view of right operand", out_rview, pairs))

    def fresh(unit):
        def g():
            o = zeros(ctx, bs, unit)
            r = uf(qa(), qb(), out=o)
            return (r, o)
        return g
    forms.append(("out=fresh quantity in the left unit", fresh(A), pairs))
    forms.append(("out=fresh quantity in a third unit", fresh(third_unit(A, B)), pairs))

    def out_plain():
        o = ctx.const_array(np.zeros(bs))
        r = uf(qa(), qb(), out=o)
        # the bare target holds the same numbers as the returned quantity: read them under the returned label
        return (r, ctx.quantity(o.copy(), label_of(r)))
    forms.append(("out=plain ndarray", out_plain, pairs))
    if tail:
        def out_tuple():
            o = zeros(ctx, bs, B)
            r = uf(qa(), qb(), out=(o,))
            return (r, o)

        def out_pos():
            o = zeros(ctx, bs, B)
            r = uf(qa(), qb(), o)
            return (r, o)
        forms += [("out=(o,)", out_tuple, pairs), ("out positional", out_pos, pairs)]
    return forms


def additive_forms(ctx, op, A, B, x, y, tail=True):
    """(form, thunk, index pairs) - thunk returns the result object (or a tuple of objects that must all hold it)"""
    f, fi, ufn = ADD_OPS[op]
    uf = getattr(np, ufn)
    sa, sb = x.shape, y.shape
    bs = bshape(sa, sb)

    def qa():
        return ctx.quantity(x.copy(), A)

    def qb():
        return ctx.quantity(y.copy(), B)
    xs, ys = bcast(x, y)
    forms = [("op", lambda: f(qa(), qb()), (xs, ys)), ("ufunc", lambda: uf(qa(), qb()), (xs, ys))]
    if bs == sa:
        def inplace():
            c = qa()
            r = fi(c, qb())
            return (r, c)
        forms.append(("inplace", inplace, (xs, ys)))

    def out():
        o = zeros(ctx, bs, B)
        r = uf(qa(), qb(), out=o)
        return (r, o)
    forms.append(("out", out, (xs, ys)))
    forms += out_target_forms(ctx, uf, A, B, x, y, (xs, ys), tail=tail)
    if A == B and sa == sb:
        # ONE object as both operands (and as the target): a op a
        exs = elements(x)

        def same():
            c = qa()
            return uf(c, c)

        def same_op():
            c = qa()
            return f(c, c)

        def same_out():
            c = qa()
            r = uf(c, c, out=c)
            return (r, c)

        def same_inplace():
            c = qa()
            r = fi(c, c)
            return (r, c)
        forms += [("ufunc, one object twice", same, (exs, exs)), ("op, one object twice", same_op, (exs, exs)),
                  ("out=the object that is both operands", same_out, (exs, exs)), ("inplace with itself", same_inplace, (exs, exs))]
    if sa == () or sb == ():
        # the operand-kind axis: a 0-d unyt_array where the forms above pass a unyt_quantity
        forms += [("op, 0-d unyt_array operands", lambda: f(as_array(ctx, x, A), as_array(ctx, y, B)), (xs, ys)),
                  ("ufunc, 0-d unyt_array operands", lambda: uf(as_array(ctx, x, A), as_array(ctx, y, B)), (xs, ys))]
        if sb == ():
            forms.append(("op, 0-d unyt_array right operand", lambda: f(qa(), as_array(ctx, y, B)), (xs, ys)))
        if sa == ():
            forms.append(("op, 0-d unyt_array left operand", lambda: f(as_array(ctx, x, A), qb()), (xs, ys)))
    for pv, mk in copied_pairs(ctx, A, B, x, y):
        forms.append((f"op, {pv}", lambda mk=mk: f(*built(mk)), (xs, ys)))
        forms.append((f"ufunc, {pv}", lambda mk=mk: uf(*built(mk)), (xs, ys)))
    if A == B:
        # the provenance axis: operands that share their Unit object (one Unit passed twice, borrowed .units, reading * symbol,
        # elements / slices / views of one array) must give what separately built operands give
        for pv, mk, pr in operand_pairs(ctx, A, B, x, y, separate=False):
            if pv == "one object twice":
                continue  # spelled out above, with its out= forms
            forms.append((f"op, {pv}", lambda mk=mk: f(*built(mk)), pr))
            forms.append((f"ufunc, {pv}", lambda mk=mk: uf(*built(mk)), pr))

            def inpl(mk=mk):
                a, b = built(mk)
                r = fi(a, b)
                return (r, a)
            forms.append((f"inplace, {pv}", inpl, pr))
    if sa == (2,) and sb == (2,):
        ex, ey = elements(x), elements(y)
        forms.append(("outer", lambda: uf.outer(qa(), qb()), ([ex[0], ex[0], ex[1], ex[1]], [ey[0], ey[1], ey[0], ey[1]])))
    return forms


def check_additive(ctx, A, B, x, y, tag):
    oA, oB = oracle_of(A), oracle_of(B)
    for op in ("add", "sub"):
        spec = additive_spec(op, oA, oB)
        for form, thunk, (xs, ys) in additive_forms(ctx, op, A, B, x, y):
            r = lib(thunk)
            outcome_obs(ctx, f"{op}/{form}/{B}/{tag}", r)
            if spec == "raise":
                ctx.require(f"{op}/refuses two offset scales", r[0] == "raise", form=form, A=A, B=B, shape=tag, got=repr(r[1])[:80])
            elif spec is not None and r[0] == "ok":
                wants, need_diff = additive_wants(spec, op, oA, oB, xs, ys)
                objs = r[1] if isinstance(r[1], tuple) else (r[1],)
                ctx.require(f"{op}/value in labelled unit", And(*[affine(o, wants, need_diff) for o in objs]),
                            form=form, A=A, B=B, shape=tag, labelled=[label_of(o) for o in objs], kind=spec)


def multiplicative_forms(ctx, A, B, x, y):
    sa, sb = x.shape, y.shape
    bs = bshape(sa, sb)

    def qa():
        return ctx.quantity(x.copy(), A)

    def qb():
        return ctx.quantity(y.copy(), B)

    def inpl(fi):
        def g():
            c = qa()
            return fi(c, qb())
        return g
    forms = [("mul/op", lambda: qa() * qb()), ("mul/ufunc", lambda: np.multiply(qa(), qb())),
             ("mul/out", lambda: np.multiply(qa(), qb(), out=zeros(ctx, bs, A))),
             ("div/op", lambda: qa() / qb()), ("div/ufunc", lambda: np.divide(qa(), qb())),
             ("div/out", lambda: np.divide(qa(), qb(), out=zeros(ctx, bs, A))),
             ("floordiv/op", lambda: qa() // qb()), ("floordiv/ufunc", lambda: np.floor_divide(qa(), qb()))]
    if bs == sa:
        forms += [("mul/inplace", inpl(operator.imul)), ("div/inplace", inpl(operator.itruediv)),
                  ("floordiv/inplace", inpl(operator.ifloordiv))]

    def alias(uf, which):
        def g():
            a, b = qa(), qb()
            return uf(a, b, out=a if which == "left" else b)
        return g
    for nm, uf in (("mul", np.multiply), ("div", np.divide), ("floordiv", np.floor_divide)):
        if bs == sa:
            forms.append((f"{nm}/out=left operand", alias(uf, "left")))
        if bs == sb:
            forms.append((f"{nm}/out=right operand", alias(uf, "right")))
        forms.append((f"{nm}/out=plain ndarray", lambda uf=uf: uf(qa(), qb(), out=ctx.const_array(np.zeros(bs)))))
        forms.append((f"{nm}/out=fresh quantity in a third unit", lambda uf=uf: uf(qa(), qb(), out=zeros(ctx, bs, third_unit(A, B)))))
    if sa == (2,) and sb == (2,):
        forms += [("mul/outer", lambda: np.multiply.outer(qa(), qb())), ("div/outer", lambda: np.divide.outer(qa(), qb()))]
    if sa == () or sb == ():
        forms += [("mul/op, 0-d unyt_array operands", lambda: as_array(ctx, x, A) * as_array(ctx, y, B)),
                  ("div/op, 0-d unyt_array operands", lambda: as_array(ctx, x, A) / as_array(ctx, y, B)),
                  ("floordiv/op, 0-d unyt_array operands", lambda: as_array(ctx, x, A) // as_array(ctx, y, B)),
                  ("divmod/op, 0-d unyt_array operands", lambda: do_divmod(ctx, as_array(ctx, x, A), as_array(ctx, y, B), "op"))]
    # divmod is a division too (quotient, remainder): every spelling, with and without out= targets
    for dform in DIVMOD_FORMS:
        def dm(dform=dform):
            o = (zeros(ctx, bs, "dimensionless"), zeros(ctx, bs, A)) if dform == "out" else None
            return do_divmod(ctx, qa(), qb(), dform, out=o)
        forms.append((f"divmod/{dform}", dm))
    for pv, mk in copied_pairs(ctx, A, B, x, y):
        forms += [(f"mul/op, {pv}", lambda mk=mk: operator.mul(*built(mk))), (f"div/op, {pv}", lambda mk=mk: operator.truediv(*built(mk))),
                  (f"floordiv/ufunc, {pv}", lambda mk=mk: np.floor_divide(*built(mk))),
                  (f"divmod/op, {pv}", lambda mk=mk: do_divmod(ctx, *built(mk), "op"))]
    if A == B:
        # the provenance axis: the refusal must not depend on whether the operands share their Unit object
        for pv, mk, _ in operand_pairs(ctx, A, B, x, y, separate=False):
            forms += [(f"mul/op, {pv}", lambda mk=mk: operator.mul(*built(mk))), (f"mul/ufunc, {pv}", lambda mk=mk: np.multiply(*built(mk))),
                      (f"div/op, {pv}", lambda mk=mk: operator.truediv(*built(mk))), (f"div/ufunc, {pv}", lambda mk=mk: np.divide(*built(mk))),
                      (f"floordiv/op, {pv}", lambda mk=mk: operator.floordiv(*built(mk))),
                      (f"floordiv/ufunc, {pv}", lambda mk=mk: np.floor_divide(*built(mk))),
                      (f"mul/inplace, {pv}", lambda mk=mk: operator.imul(*built(mk))), (f"div/inplace, {pv}", lambda mk=mk: operator.itruediv(*built(mk)))]
            for dform in DIVMOD_FORMS[:3]:
                forms.append((f"divmod/{dform}, {pv}", lambda mk=mk, dform=dform: do_divmod(ctx, *built(mk), dform)))
    return forms


def check_multiplicative(ctx, A, B, x, y, tag):
    for form, thunk in multiplicative_forms(ctx, A, B, x, y):
        r = lib(thunk)
        outcome_obs(ctx, f"{form}/{B}/{tag}", r)
        ctx.require(f"{form.split('/')[0]}/refuses offset operand", r[0] == "raise", form=form, A=A, B=B, shape=tag, got=repr(r[1])[:80])


def make_pair_case(A, famB, prefixes, shape_pairs):
    oA = oracle_of(A)
    members = family_members(famB, prefixes)

    def h(ctx):
        _fresh(ctx)
        for si, (sa, sb) in enumerate(shape_pairs):
            tag = tagof(sa, sb)
            for bi, B in enumerate(members):
                x = ctx.reals(f"x{si}", sa)
                y = ctx.reals(f"y{si}", sb)
                check_additive(ctx, A, B, x, y, tag)
                if oA[0] == "P" or oracle_of(B)[0] == "P":
                    # divisors are kept away from zero: x/0 is outside the reals (A1)
                    xm = ctx.reals(f"xm{si}", sa, nonzero=True)
                    ym = ctx.reals(f"ym{si}", sb, nonzero=True)
                    check_multiplicative(ctx, A, B, xm, ym, tag)
    return Case(f"C08/pair/{A},{famB}", h, bounds="symbolic: readings", weight=len(members) * len(shape_pairs))


# --------------------------------------------------------------------------------------------- comparisons, max/min (forking)

CMP = {"lt": (operator.lt, "less", lambda a, b: a < b), "le": (operator.le, "less_equal", lambda a, b: a <= b),
       "gt": (operator.gt, "greater", lambda a, b: a > b), "ge": (operator.ge, "greater_equal", lambda a, b: a >= b),
       "eq": (operator.eq, "equal", lambda a, b: a == b), "ne": (operator.ne, "not_equal", lambda a, b: a != b)}


def same_kind_spec(oA, oB):
    if oA[0] == "P" and oB[0] == "P":
        return "value" if same_scale(oA, oB) else "raise"
    if oA[0] == "D" and oB[0] == "D":
        return "value"
    return None


def make_cmp_case(A, B, shape):
    oA, oB = oracle_of(A), oracle_of(B)
    spec = same_kind_spec(oA, oB)

    def h(ctx):
        _fresh(ctx)
        x = ctx.reals("x", shape)
        y = ctx.reals("y", shape)
        xs, ys = elements(x), elements(y)
        tag = tagof(shape)
        for name, (f, ufn, truth) in CMP.items():
            uf = getattr(np, ufn)
            forms = [("op", lambda: f(ctx.quantity(x.copy(), A), ctx.quantity(y.copy(), B)), (xs, ys)),
                     ("ufunc", lambda: uf(ctx.quantity(x.copy(), A), ctx.quantity(y.copy(), B)), (xs, ys))]
            # the provenance axis (A == B): operands sharing one Unit object compare like separately built ones
            for pv, mk, pr in operand_pairs(ctx, A, B, x, y, separate=False):
                forms += [(f"op, {pv}", lambda mk=mk: f(*built(mk)), pr), (f"ufunc, {pv}", lambda mk=mk: uf(*built(mk)), pr)]
            if shape == ():
                forms += [("op, 0-d unyt_array operands", lambda: f(as_array(ctx, x, A), as_array(ctx, y, B)), (xs, ys)),
                          ("op, 0-d unyt_array right operand", lambda: f(ctx.quantity(x.copy(), A), as_array(ctx, y, B)), (xs, ys))]
            forms += [(f"op, {pv}", lambda mk=mk: f(*built(mk)), (xs, ys)) for pv, mk in copied_pairs(ctx, A, B, x, y)]
            for form, thunk, (pxs, pys) in forms:
                r = lib(thunk)
                if r[0] == "raise":
                    ctx.observe(f"{name}/{form}", "raise:" + type(r[1]).__name__)
                else:
                    ctx.observe(f"{name}/{form}", [bool(v) for v in elements(r[1])])
                if spec == "raise":
                    ctx.require("comparison/refuses two offset scales", r[0] == "raise", op=name, form=form, A=A, B=B, got=repr(r[1])[:80])
                elif r[0] == "ok":
                    got = elements(r[1])
                    ok = len(got) == len(pxs)
                    conds = []
                    for g, a, b in zip(got, pxs, pys):
                        ka, kb = kel(oA, a), kel(oB, b)
                        conds.append(Or(Iff(bool(g), truth(ka, kb)), close(ka, kb, extra=band(oA[2], oB[2]))))
                    ctx.require("comparison/agrees with kelvin comparison", And(ok, *conds), op=name, form=form, A=A, B=B, shape=tag)
    return Case(f"C08/cmp/{A},{B}/shape{tagof(shape)}", h, bounds="symbolic: readings", max_paths=2000)


def make_maxmin_case(A, B, shape, out_targets=True):
    oA, oB = oracle_of(A), oracle_of(B)
    spec = same_kind_spec(oA, oB)

    def h(ctx):
        _fresh(ctx)
        x = ctx.reals("x", shape)
        y = ctx.reals("y", shape)
        xs, ys = elements(x), elements(y)
        tag = tagof(shape)
        for ufn in ("maximum", "minimum", "fmax", "fmin"):
            uf = getattr(np, ufn)
            hi = ufn in ("maximum", "fmax")

            def out():
                o = zeros(ctx, shape, B)
                r = uf(ctx.quantity(x.copy(), A), ctx.quantity(y.copy(), B), out=o)
                return (r, o)
            targets = [(fm, th, (xs, ys)) for fm, th, _ in out_target_forms(ctx, uf, A, B, x, y, None)] if out_targets else []
            # the provenance axis (A == B): operands sharing one Unit object
            shared = [(f"ufunc, {pv}", lambda mk=mk: uf(*built(mk)), pr) for pv, mk, pr in operand_pairs(ctx, A, B, x, y, separate=False)]
            if shape == ():
                shared += [("ufunc, 0-d unyt_array operands", lambda: uf(as_array(ctx, x, A), as_array(ctx, y, B)), (xs, ys)),
                           ("ufunc, 0-d unyt_array right operand", lambda: uf(ctx.quantity(x.copy(), A), as_array(ctx, y, B)), (xs, ys))]
            shared += [(f"ufunc, {pv}", lambda mk=mk: uf(*built(mk)), (xs, ys)) for pv, mk in copied_pairs(ctx, A, B, x, y)]
            for form, thunk, (pxs, pys) in [("ufunc", lambda: uf(ctx.quantity(x.copy(), A), ctx.quantity(y.copy(), B)), (xs, ys)),
                                            ("out", out, (xs, ys))] + targets + shared:
                r = lib(thunk)
                outcome_obs(ctx, f"{ufn}/{form}", r)
                if spec == "raise":
                    ctx.require("maxmin/refuses two offset scales", r[0] == "raise", op=ufn, form=form, A=A, B=B, got=repr(r[1])[:80])
                elif r[0] == "ok":
                    wants = []
                    for a, b in zip(pxs, pys):
                        ka, kb = kel(oA, a), kel(oB, b)
                        w = ite((ka >= kb) if hi else (ka <= kb), ka, kb)
                        wants.append((w, (ka, kb, oA[2])))
                    objs = r[1] if isinstance(r[1], tuple) else (r[1],)
                    ctx.require("maxmin/value in labelled unit", And(*[affine(o, wants, oA[0] == "D") for o in objs]),
                                op=ufn, form=form, A=A, B=B, shape=tag, labelled=[label_of(o) for o in objs])
    return Case(f"C08/maxmin/{A},{B}/shape{tagof(shape)}", h, bounds="symbolic: readings", max_paths=4000)


# --------------------------------------------------------------------------------------------- forbidden unary / scaling forms

def power_forms(ctx, U, x):
    """(obligation label, form, thunk). The `**` operator is only used with exponents NumPy does not special-case:
    on float payloads ndarray.__pow__ turns 2, 0.5, -1 into np.square/np.sqrt/np.reciprocal (checked here as ufuncs),
    on object payloads it does not, so those three spellings would not mean the same call in both modes."""
    shape = x.shape

    def q():
        return ctx.quantity(x.copy(), U)

    def ip(fi, arg):
        def g():
            c = q()
            return fi(c, arg)
        return g

    def o():
        return zeros(ctx, shape, U)
    third = 1.0 / 3.0
    forms = [("square", "ufunc", lambda: np.square(q())), ("square", "out", lambda: np.square(q(), out=o())),
             ("reciprocal", "ufunc", lambda: np.reciprocal(q())), ("reciprocal", "out", lambda: np.reciprocal(q(), out=o())),
             ("sqrt", "ufunc", lambda: np.sqrt(q())), ("sqrt", "out", lambda: np.sqrt(q(), out=o())),
             ("cbrt", "ufunc", lambda: np.cbrt(q())), ("cbrt", "out", lambda: np.cbrt(q(), out=o())),
             ("rdiv(1)", "op", lambda: 1.0 / q())]
    def self_out(uf, *extra):
        def g():
            c = q()
            return uf(c, *extra, out=c)
        return g
    forms += [("square", "out=the operand", self_out(np.square)), ("reciprocal", "out=the operand", self_out(np.reciprocal)),
              ("sqrt", "out=the operand", self_out(np.sqrt)), ("cbrt", "out=the operand", self_out(np.cbrt)),
              ("square", "out=plain ndarray", lambda: np.square(q(), out=ctx.const_array(np.zeros(shape))))]
    import copy as _copy

    def qd():
        return _copy.deepcopy(q())
    forms += [("square", "ufunc, deep-copied operand", lambda: np.square(qd())), ("sqrt", "ufunc, deep-copied operand", lambda: np.sqrt(qd())),
              ("reciprocal", "ufunc, deep-copied operand", lambda: np.reciprocal(qd())),
              ("power", "ufunc 3, deep-copied operand", lambda: np.power(qd(), 3)), ("rdiv(1)", "op, deep-copied operand", lambda: 1.0 / qd())]
    for pname, p in (("2", 2), ("3", 3), ("-1", -1), ("-2", -2), ("1/2", 0.5), ("1/3", third), ("3/2", 1.5), ("-1/2", -0.5)):
        forms.append(("power", f"ufunc {pname}", lambda p=p: np.power(q(), p)))
        forms.append(("power", f"out {pname}", lambda p=p: np.power(q(), p, out=o())))
        forms.append(("power", f"out=the operand {pname}", self_out(np.power, p)))
        if pname not in ("2", "-1", "1/2"):
            forms.append(("pow operator", f"** {pname}", lambda p=p: q() ** p))
            forms.append(("pow operator", f"**= {pname}", ip(operator.ipow, p)))
    if shape != ():
        forms += [("multiply.reduce", "reduce", lambda: np.multiply.reduce(q())), ("divide.reduce", "reduce", lambda: np.divide.reduce(q())),
                  ("multiply.accumulate", "accumulate", lambda: np.multiply.accumulate(q())), ("prod", "function", lambda: np.prod(q())),
                  ("prod", "method", lambda: q().prod()),
                  ("cumprod", "function", lambda: np.cumprod(q())), ("dot", "function", lambda: np.dot(q(), q())),
                  ("pow operator", "** array of 3", lambda: q() ** np.full(shape, 3.0))]
    return forms


def make_power_case(units, shapes):
    def h(ctx):
        _fresh(ctx)
        for si, shape in enumerate(shapes):
            x = ctx.reals(f"x{si}", shape, pos=True)
            for U in units:
                for label, form, thunk in power_forms(ctx, U, x):
                    r = lib(thunk)
                    outcome_obs(ctx, f"{label}/{form}/{U}/{tagof(shape)}", r)
                    ctx.require(f"{label}/refuses offset operand", r[0] == "raise", form=form, unit=U, shape=tagof(shape), got=repr(r[1])[:80])
    return Case("C08/forbid/power", h, bounds="symbolic: readings (positive)", weight=50)


def scaling_forms(ctx, U, x, z):
    shape = x.shape
    unyt = ctx.mods["unyt"]

    def q():
        return ctx.quantity(x.copy(), U)

    def other(unit):
        return ctx.quantity(z, unit)

    def ip(fi, arg):
        def g():
            c = q()
            return fi(c, arg())
        return g
    def bare():
        return z
    forms = [("mul bare/op", lambda: q() * bare()), ("rmul bare/op", lambda: bare() * q()), ("div bare/op", lambda: q() / bare()),
             ("rdiv bare/op", lambda: bare() / q()), ("mul bare/ufunc", lambda: np.multiply(q(), bare())),
             ("mul bare/inplace", ip(operator.imul, bare)), ("div bare/inplace", ip(operator.itruediv, bare)),
             ("mul bare/out", lambda: np.multiply(q(), bare(), out=zeros(ctx, shape, U))),
             ("mul dimensionless/op", lambda: q() * other("dimensionless")), ("rmul dimensionless/op", lambda: other("dimensionless") * q()),
             ("div dimensionless/op", lambda: q() / other("dimensionless")), ("rdiv dimensionless/op", lambda: other("dimensionless") / q()),
             ("mul metre/op", lambda: q() * other("m")), ("rmul metre/op", lambda: other("m") * q()),
             ("div metre/op", lambda: q() / other("m")), ("rdiv metre/op", lambda: other("m") / q()),
             ("div metre/ufunc", lambda: np.divide(q(), other("m"))), ("floordiv bare/op", lambda: q() // bare()),
             ("mul Unit/op", lambda: q() * unyt.Unit("m")), ("rmul Unit/op", lambda: unyt.Unit("m") * q()),
             ("div Unit/op", lambda: q() / unyt.Unit("s")), ("rdiv Unit/op", lambda: unyt.Unit("J") / q())]
    # the scale itself as the Unit operand: the quantity's own Unit object (identical), an equal but separately built one
    def own(fn):
        def g():
            c = q()
            return fn(c, c.units)
        return g
    forms += [("mul own Unit/op", own(operator.mul)), ("div own Unit/op", own(operator.truediv)),
              ("rmul own Unit/op", own(lambda c, u: u * c)), ("rdiv own Unit/op", own(lambda c, u: u / c)),
              ("mul equal Unit/op", lambda: q() * unyt.Unit(U)), ("div equal Unit/op", lambda: q() / unyt.Unit(U)),
              ("rdiv equal Unit/op", lambda: unyt.Unit(U) / q())]
    # unit algebra: a quantity whose unit is the product / quotient / power of an offset scale cannot be built, whether the
    # factors are the identical Unit object or equal ones
    def derived(fn):
        def g():
            u = unyt.Unit(U)
            return ctx.quantity(x.copy(), fn(u, unyt.Unit(U)))
        return g
    forms += [("unit algebra/u*u (one object)", derived(lambda u, v: u * u)), ("unit algebra/u*v (equal objects)", derived(lambda u, v: u * v)),
              ("unit algebra/u/u (one object)", derived(lambda u, v: u / u)), ("unit algebra/u/v (equal objects)", derived(lambda u, v: u / v)),
              ("unit algebra/u**2", derived(lambda u, v: u ** 2)), ("unit algebra/u**-1", derived(lambda u, v: u ** -1)),
              ("unit algebra/u**0.5", derived(lambda u, v: u ** 0.5)), ("unit algebra/1/u", derived(lambda u, v: 1 / u)),
              ("unit algebra/u/delta_degC", derived(lambda u, v: u / unyt.Unit("delta_degC"))),
              ("unit algebra/K/u", derived(lambda u, v: unyt.Unit("K") / u)),
              ("unit algebra/u*m", derived(lambda u, v: u * unyt.Unit("m"))), ("unit algebra/m/u", derived(lambda u, v: unyt.Unit("m") / u)),
              ("unit algebra/u/s", derived(lambda u, v: u / unyt.Unit("s"))),
              ("unit algebra/(x*u)/u", lambda: (lambda u: (x.copy() * u) / u)(unyt.Unit(U))),
              ("unit algebra/(x*u)*u", lambda: (lambda u: (x.copy() * u) * u)(unyt.Unit(U)))]
    return forms


def make_scaling_case(units, shapes):
    def h(ctx):
        _fresh(ctx)
        for si, shape in enumerate(shapes):
            x = ctx.reals(f"x{si}", shape, nonzero=True)
            z = ctx.real(f"z{si}", nonzero=True)
            for U in units:
                for form, thunk in scaling_forms(ctx, U, x, z):
                    r = lib(thunk)
                    outcome_obs(ctx, f"{form}/{U}/{tagof(shape)}", r)
                    ctx.require(f"{form.split('/')[0]}/refuses offset operand", r[0] == "raise", form=form, unit=U, shape=tagof(shape), got=repr(r[1])[:80])
    return Case("C08/forbid/scaling", h, bounds="symbolic: readings, factor", weight=50)


# --------------------------------------------------------------------------------------------- reductions, diff_helper

DIFF_ARG_UNITS = ("K", "R", "delta_degF", "mK")


def obj1(ctx, v):
    """a 1-element payload array holding v"""
    a = np.empty((1,), dtype=object if ctx.symbolic else float)
    a[0] = v
    return a


def make_reduce_case(fam, prefixes, n, second=False):
    """fam: a family name, or 'points' = every offset-scale spelling (their reductions mostly refuse)"""
    if fam == "points":
        members = [u for u in all_units(prefixes) if oracle_of(u)[0] == "P"]
    else:
        members = family_members(fam, prefixes)

    def h(ctx):
        _fresh(ctx)
        x = ctx.reals("x", (n,))
        xs = elements(x)
        for U in members:
            o = oracle_of(U)
            a = o[1]

            def q():
                return ctx.quantity(x.copy(), U)
            tot = sum((a * v for v in xs[1:]), a * xs[0])
            run = [sum((a * v for v in xs[1:i + 1]), a * xs[0]) for i in range(n)]
            terms = tuple(a * v for v in xs)
            checks = []
            if o[0] == "D":
                checks += [("add.reduce", lambda: np.add.reduce(q()), [(tot, terms)]), ("sum", lambda: np.sum(q()), [(tot, terms)]),
                           ("sum/method", lambda: q().sum(), [(tot, terms)]),
                           ("add.accumulate", lambda: np.add.accumulate(q()), [(r, terms) for r in run]),
                           ("cumsum", lambda: np.cumsum(q()), [(r, terms) for r in run])]
                # where the reduction is written must not change it: a fresh 0-d / n-element target of this unit or of
                # another temperature unit, a plain ndarray, and (accumulate) the operand itself
                other = third_unit(U, U)

                def red_out(fn, unit, shape):
                    def g():
                        t = zeros(ctx, shape, unit) if unit is not None else ctx.const_array(np.zeros(shape))
                        r = fn(q(), out=t)
                        return (r, t) if unit is not None else (r, ctx.quantity(t.copy(), label_of(r)))
                    return g

                def acc_self(fn):
                    def g():
                        c = q()
                        r = fn(c, out=c)
                        return (r, c)
                    return g
                for tname, unit in (("same unit", U), ("third unit", other), ("plain ndarray", None)):
                    checks += [(f"add.reduce/out={tname}", red_out(np.add.reduce, unit, ()), [(tot, terms)]),
                               (f"sum/out={tname}", red_out(np.sum, unit, ()), [(tot, terms)]),
                               (f"add.accumulate/out={tname}", red_out(np.add.accumulate, unit, (n,)), [(r, terms) for r in run]),
                               (f"cumsum/out={tname}", red_out(np.cumsum, unit, (n,)), [(r, terms) for r in run])]
                checks += [("add.accumulate/out=the operand", acc_self(np.add.accumulate), [(r, terms) for r in run]),
                           ("cumsum/out=the operand", acc_self(np.cumsum), [(r, terms) for r in run])]
            if n == 2:
                checks.append(("subtract.reduce", lambda: np.subtract.reduce(q()), [(a * xs[0] - a * xs[1], terms)]))
            d1 = [(a * xs[i + 1] - a * xs[i], terms) for i in range(n - 1)]
            checks += [("diff", lambda: np.diff(q()), d1), ("ediff1d", lambda: np.ediff1d(q()), d1)]
            if o[0] == "D":
                # the optional arguments of np.diff / np.ediff1d given as QUANTITIES of another difference unit P, by keyword
                # and positionally: prepend/append join the readings (a difference of U minus a difference of P), to_begin/
                # to_end join the differences; every returned number is read in the unit the result is labelled with
                pv = ctx.real("p")
                for P in DIFF_ARG_UNITS:
                    if P == U:
                        continue
                    ap = oracle_of(P)[1]
                    pk = ap * pv
                    tp = terms + (pk,)

                    def pq(P=P):
                        return ctx.quantity(pv, P)
                    dd = [(w, tp) for w, _ in d1]
                    checks += [(f"diff(prepend={P})", lambda pq=pq: np.diff(q(), prepend=pq()), [(a * xs[0] - pk, tp)] + dd),
                               (f"diff(append={P})", lambda pq=pq: np.diff(q(), append=pq()), dd + [(pk - a * xs[-1], tp)]),
                               (f"diff(1, -1, {P})", lambda pq=pq: np.diff(q(), 1, -1, pq()), [(a * xs[0] - pk, tp)] + dd),
                               (f"diff(1, -1, {P}, {P})", lambda pq=pq: np.diff(q(), 1, -1, pq(), pq()),
                                [(a * xs[0] - pk, tp)] + dd + [(pk - a * xs[-1], tp)]),
                               (f"diff(prepend=[{P}])", lambda P=P: np.diff(q(), prepend=ctx.quantity(joined(obj1(ctx, pv)), P)),
                                [(a * xs[0] - pk, tp)] + dd),
                               (f"ediff1d(to_end={P})", lambda pq=pq: np.ediff1d(q(), to_end=pq()), dd + [(pk, tp)]),
                               (f"ediff1d(to_begin={P})", lambda pq=pq: np.ediff1d(q(), to_begin=pq()), [(pk, tp)] + dd),
                               (f"ediff1d({P}, {P})", lambda pq=pq: np.ediff1d(q(), pq(), pq()), [(pk, tp)] + dd + [(pk, tp)])]
            if second and n >= 3:
                d2 = [(a * xs[i + 2] - 2 * a * xs[i + 1] + a * xs[i], terms) for i in range(n - 2)]
                checks.append(("diff(n=2)", lambda: np.diff(q(), n=2), d2))
            # np.ptp works on the bare readings: the comparisons it forks on are the same for every member
            hi, lo = a * xs[0], a * xs[0]
            for v in xs[1:]:
                hi = ite(a * v >= hi, a * v, hi)
                lo = ite(a * v <= lo, a * v, lo)
            checks.append(("ptp", lambda: np.ptp(q()), [(hi - lo, terms)]))
            for label, thunk, wants in checks:
                r = lib(thunk)
                outcome_obs(ctx, f"{label}/{U}", r)
                if r[0] == "ok":
                    grp = "diff_helper" if label.split("/")[0].split("(")[0] in ("diff", "ediff1d", "ptp") else label.split("/")[0]
                    objs = r[1] if isinstance(r[1], tuple) else (r[1],)
                    ctx.require(f"{grp}/difference in labelled unit", And(*[affine(ob, wants, True) for ob in objs]), call=label, unit=U,
                                labelled=[label_of(ob) for ob in objs])
    return Case(f"C08/reduce/{fam}/n{n}", h, bounds="symbolic: readings", weight=len(members))


# --------------------------------------------------------------------------------------------- case table

def _check_table(mods, units):
    """the spellings used here parse, and name the unit the oracle row is written for (by canonical name only)"""
    Unit = mods["unyt"].Unit
    for n in units:
        try:
            u = Unit(n)
        except Exception as e:  # noqa: BLE001
            raise HarnessError(f"C08: unit spelling {n!r} does not parse: {e}")
        canon = str(u.expr)
        if oracle_of(canon) is None or oracle_of(canon) != oracle_of(n):
            raise HarnessError(f"C08: spelling {n!r} resolves to {canon!r}, which the oracle table does not know as the same unit")


def cases(tier, mods):
    prefixes = QUICK_PREFIXES if tier == "quick" else list(SI_EXP)
    units = all_units(prefixes)
    _check_table(mods, units)
    fams = families()
    offs = [u for u in units if oracle_of(u)[0] == "P"]
    out = []
    quick = tier == "quick"
    quick_units = set(all_units(QUICK_PREFIXES))
    # conversions
    for A in units:
        for sh in [(), (2,)]:
            out.append(make_conv_case(A, units, sh))
        for origin in ("copy", "deepcopy", "unitcopy"):
            for sh in ([()] if quick else [(), (2,)]):
                out.append(make_conv_case(A, units, sh, origin))
        # the target spelled as a Unit object / borrowed from another quantity (+ Unit.get_conversion_factor itself)
        for tform in TARGET_FORMS[1:]:
            for sh in ([(2,)] if quick else [(), (2,)]):
                out.append(make_conv_case(A, units, sh, "fresh", tform))
        # conversion to the temperature base unit of a unit system, every spelling of that request
        systems = list(QUICK_SYSTEMS) if quick else list(SYSTEM_T) + list(USER_SYSTEM_T)
        for sh in [(), (2,)]:
            out.append(make_base_case(A, systems, sh))
        # two- and three-step conversion histories, by value and in place on one object
        thirds = ["degF", "mdegC", "R"] if quick else ["degF", "mdegC", "R", "delta_degC"]
        out.append(make_chain_case(A, units, (), thirds))
        out.append(make_implicit_case(A, units))
    # additive + multiplicative pair table
    sp = [((), ()), ((2,), (2,)), ((), (2,)), ((2,), ())]
    for A in units:
        for fb in fams:
            out.append(make_pair_case(A, fb, prefixes, sp))
    # comparisons, max/min (same-kind pairs; mixed point/difference pairs are not stated by the property)
    for A in units:
        for B in units:
            if same_kind_spec(oracle_of(A), oracle_of(B)) is None:
                continue
            shs = [()]
            if not quick and (A in BASE or A in ALIAS or B in BASE or B in ALIAS):
                shs.append((2,))  # cut for wall time: 2-element readings only where one operand is an unprefixed spelling
            for sh in shs:
                out.append(make_cmp_case(A, B, sh))
                # the out= placement axis of max/min: every pair of the 14 quick spellings; pairs with any other prefixed
                # spelling keep the plain and fresh-target forms (cut for wall time; their add/subtract table has all placements)
                out.append(make_maxmin_case(A, B, sh, out_targets=A in quick_units and B in quick_units))
    out.append(make_power_case(offs, [(), (2,)]))
    out.append(make_scaling_case(offs, [(), (2,)]))
    for fb in [f for f in fams if oracle_of(family_members(f, prefixes)[0])[0] == "D"] + ["points"]:
        out.append(make_reduce_case(fb, prefixes, 2))
        if not quick and fb != "points":
            out.append(make_reduce_case(fb, prefixes, 3, second=True))
    return out
