#!/bin/sh
# Offline, idempotent: overlay venv on top of /venv (which holds numpy/sympy and the editable unyt)
# with z3-solver (and cvc5) from the local wheelhouse.
set -e
cd "$(dirname "$0")"
V=.venv
if [ ! -x "$V/bin/python" ] || ! "$V/bin/python" -c "import z3, numpy, sympy" 2>/dev/null; then
  rm -rf "$V"
  /venv/bin/python -m venv "$V"
  SP=$("$V/bin/python" -c "import sysconfig; print(sysconfig.get_paths()['purelib'])")
  printf '%s\n' "import site; site.addsitedir('/venv/lib/python3.12/site-packages')" > "$SP/verif_overlay.pth"
  PIP_NO_INDEX=1 "$V/bin/pip" install -q --no-index --find-links /opt/veriftools/wheels z3-solver
  PIP_NO_INDEX=1 "$V/bin/pip" install -q --no-index --find-links /opt/veriftools/wheels cvc5 || true
fi
"$V/bin/python" -c "import z3, numpy, sympy; print('verif venv ok: z3', z3.get_version_string(), 'numpy', numpy.__version__)"
