"""Run the checks against the seeded defects kept under /verif/seeded/<id>/ (patch.diff, demo.py, meta.json).

For each seeded change: a scratch git worktree of /repo's HEAD is created under /tmp, the patch applied there, the
check(s) of the property it breaks are run with VERIF_REPO pointing at the scratch tree (same machinery, same commands,
only the source root differs), and the worktree is removed. Writes seeded/RESULTS.json and prints a table.

  .venv/bin/python tools_seeded.py [--tier quick|thorough] [--only ID_GLOB] [--jobs N] [--also-props C01,C18]
"""
import argparse
import fnmatch
import json
import os
import re
import subprocess
import sys
import time

ROOT = os.path.dirname(os.path.abspath(__file__))
REPO = "/repo"


def sh(cmd, **kw):
    return subprocess.run(cmd, shell=True, capture_output=True, text=True, **kw)


def main():
    ap = argparse.ArgumentParser()
    ap.add_argument("--tier", default="quick")
    ap.add_argument("--only", default="*")
    ap.add_argument("--jobs", default="16")
    ap.add_argument("--demo", action="store_true", help="also run demo.py on the patched and unpatched tree")
    ap.add_argument("--new-only", action="store_true", help="skip seeds that already have an entry in RESULTS.json")
    ap.add_argument("--out", default=None, help="write results to this file instead of seeded/RESULTS.json")
    a = ap.parse_args()
    sdir = os.path.join(ROOT, "seeded")
    out = {}
    resf = os.path.join(sdir, "RESULTS.json")
    if os.path.exists(resf):
        out = json.load(open(resf))
    done_before = set(out)
    if a.out:
        resf = a.out
        out = json.load(open(resf)) if os.path.exists(resf) else {}
    for sid in sorted(os.listdir(sdir)):
        d = os.path.join(sdir, sid)
        if not os.path.isdir(d) or not any(fnmatch.fnmatchcase(sid, g) for g in a.only.split(",")):
            continue
        if a.new_only and sid in done_before:
            continue
        meta = json.load(open(os.path.join(d, "meta.json")))
        if meta.get("retired"):
            out[sid] = dict(property=meta["property"], retired=meta["retired"])
            continue
        wt = f"/tmp/seedrun_{sid}"
        sh(f"git -C {REPO} worktree remove --force {wt}")
        r = sh(f"git -C {REPO} worktree add --detach {wt} HEAD")
        if r.returncode:
            print(sid, "worktree failed", r.stderr)
            continue
        try:
            r = sh(f"git -C {wt} apply {os.path.join(d, 'patch.diff')}")
            if r.returncode:
                out[sid] = dict(property=meta["property"], error="patch does not apply: " + r.stderr[-300:])
                print(sid, "PATCH DOES NOT APPLY")
                continue
            res = dict(property=meta["property"], tier=a.tier, checks={})
            if a.demo and os.path.exists(os.path.join(d, "demo.py")):
                os.makedirs(f"{wt}/_seed/1", exist_ok=True)
                sh(f"cp {os.path.join(d, 'demo.py')} {wt}/_seed/1/demo.py")
                r1 = sh(f"cd {wt} && /venv/bin/python _seed/1/demo.py")
                res["demo"] = dict(patched_exit=r1.returncode)
            for prop in [meta["property"]] + meta.get("also_check", []):
                if not os.path.exists(os.path.join(ROOT, "harness", prop.lower() + ".py")):
                    res["checks"][prop] = dict(exit=None, note="no harness")
                    continue
                t0 = time.time()
                r = sh(f"cd {ROOT} && VERIF_REPO={wt} ./check {prop} --tier {a.tier} --no-evidence --jobs {a.jobs}")
                vio = [l for l in r.stdout.splitlines() if l.startswith("VIOLATION")]
                inc = [l for l in r.stdout.splitlines() if l.startswith("INCONCLUSIVE")]
                res["checks"][prop] = dict(exit=r.returncode, violations=len(vio), first=(vio[0][:400] if vio else None),
                                           inconclusive=len(inc), first_inconclusive=(inc[0][:300] if inc else None),
                                           wall_s=round(time.time() - t0, 1))
            out[sid] = res
            c = res["checks"].get(meta["property"], {})
            print(f"{sid:28s} {meta['property']} exit={c.get('exit')} violations={c.get('violations')} inconclusive={c.get('inconclusive')} "
                  f"wall={c.get('wall_s')}s demo={res.get('demo')}", flush=True)
        finally:
            sh(f"git -C {REPO} worktree remove --force {wt}")
            json.dump(out, open(resf, "w"), indent=1, sort_keys=True)
    caught = sum(1 for v in out.values() if any(c.get("exit") == 1 for c in v.get("checks", {}).values()))
    print(f"{caught}/{len(out)} seeded changes reported as VIOLATION")


if __name__ == "__main__":
    sys.exit(main())
