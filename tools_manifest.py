"""regenerates MANIFEST.json from the table below (run after adding a harness)"""
import json
import os

ROOT = os.path.dirname(os.path.abspath(__file__))

COMMON_NOTE = ("Trusted base: z3; the shims A1-A10 listed in the evidence file (floats treated as reals; float casts of "
               "object payloads are no-ops; math.isclose / np.isclose as formulas; transcendental functions uninterpreted); "
               "the independent oracles written in /verif/harness; the discrete axes (unit kinds, dimensions, call forms, shapes) "
               "are enumerated inside the stated bounds, only the continuous axes (values, scales, offsets, tolerances) are "
               "decided by the solver for all reals. Counterexamples are replayed with IEEE doubles on the unshimmed library.")

CHECKS = {
    "C03": dict(
        category="other",
        text=("Bounded symbolic execution of the real conversion code (symx): for every enumerated pair/triple of unit kinds and "
              "every entry point, z3 proves identity, inverse, composition, route agreement and the affine SI oracle for ALL real "
              "values, scales and offsets (unsat of pc & not P per path); any model is replayed on plain unyt. Bounded: kinds, "
              "payload shapes <= (2,2); rounding is outside."),
        design="DESIGN.md section 4 C03",
        technique="symbolic execution of the real Python code over z3 real terms; SMT (QF_NRA) obligations per path; counterexample replay"),
}

NOT_YET = {
}

NA = {
}


def main():
    props = [json.loads(l) for l in open(os.path.join(ROOT, "properties.jsonl"))]
    checks = []
    na = []
    for p in props:
        pid = p["id"]
        if pid in CHECKS and os.path.exists(os.path.join(ROOT, "harness", pid.lower() + ".py")):
            c = CHECKS[pid]
            checks.append(dict(
                property_id=pid,
                quick_cmd=f"./check {pid} --tier quick",
                thorough_cmd=f"./check {pid} --tier thorough",
                evidence_file=f"/verif/evidence/{pid}.json",
                replay_cmd_template="./check --replay {path}",
                engine="symx",
                level_claimed=dict(category=c["category"], text=c["text"], design_ref=c["design"]),
                level_note=c.get("note", COMMON_NOTE),
                technique=c["technique"],
            ))
        else:
            na.append(dict(property_id=pid, reason=NA.get(pid, "check not built yet in this round (planned: see DESIGN.md section 4); not claimed")))
    m = dict(
        version=1,
        setup_cmd="./setup.sh",
        hooks=dict(guard="YT_PROJECT_UNYT_VERIF", enable="no source hooks: all instrumentation is applied at load time by /verif/symx/shims.py (module-global rebinding and one AST rewrite of the loaded unyt.unit_object); nothing in /repo is guarded",
                   baseline_off_cmd="cd /repo && /venv/bin/python -m pytest -ra -q -p no:cacheprovider --timeout=900 --continue-on-collection-errors",
                   source_commits=[], add_only=True),
        engines=[dict(name="symx", path="/verif/symx", serves_properties=[c["property_id"] for c in checks],
                      kind_free_text="dynamic symbolic execution of the real unyt bytecode over z3 terms (SymReal proxies inside real NumPy object arrays and real Unit/UnitRegistry objects), DFS path exploration with re-execution, per-path SMT obligations, replay of models on the unshimmed library")],
        checks=checks,
        notes="Exit codes: 0 = every obligation discharged; 1 = VIOLATION (reproduced counterexample not listed in known_findings.json); 2 = inconclusive (solver unknown, truncated exploration, unsupported path, shim-conformance disagreement, non-reproducing model). Repairs of genuine defects are 'fix:' commits in /repo, listed in known_findings.json with status fixed.",
        not_applicable=na,
    )
    json.dump(m, open(os.path.join(ROOT, "MANIFEST.json"), "w"), indent=1)
    print("MANIFEST.json:", len(checks), "checks,", len(na), "not claimed")


if __name__ == "__main__":
    main()
