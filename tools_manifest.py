"""regenerates MANIFEST.json from the harness modules listed in claimed.txt (one property id per line: the checks that
have been run end to end on the unchanged tree and committed) (run with /verif/.venv/bin/python after adding a harness).

Every harness module harness/cNN.py that defines a dict MANIFEST = {category, text, design, technique[, note]} becomes a
claimed check; every other property of properties.jsonl is listed under not_applicable with the reason given in NA below
(or in the module's NOT_APPLICABLE string)."""
import importlib
import json
import os
import sys

ROOT = os.path.dirname(os.path.abspath(__file__))
sys.path.insert(0, ROOT)

COMMON_NOTE = ("Trusted base: z3; the shims A1-A10 listed in the evidence file (floats treated as reals; float casts of "
               "object payloads are no-ops; math.isclose / np.isclose as formulas; transcendental functions uninterpreted); "
               "the independent oracles written in /verif/harness; the discrete axes (unit kinds, dimensions, call forms, shapes) "
               "are enumerated inside the stated bounds, only the continuous axes (values, scales, offsets, tolerances) are "
               "decided by the solver for all reals. Counterexamples are replayed with IEEE doubles on the unshimmed library.")

NA = {
}

DEFAULT_NA = "check not built yet in this round (planned: see DESIGN.md section 4); not claimed"


def main():
    props = [json.loads(l) for l in open(os.path.join(ROOT, "properties.jsonl"))]
    checks = []
    na = []
    claimed = set(open(os.path.join(ROOT, "claimed.txt")).read().split())
    for p in props:
        pid = p["id"]
        mod = None
        if pid in claimed and os.path.exists(os.path.join(ROOT, "harness", pid.lower() + ".py")):
            mod = importlib.import_module("harness." + pid.lower())
        c = getattr(mod, "MANIFEST", None) if mod else None
        if c:
            checks.append(dict(
                property_id=pid,
                quick_cmd=f"./check {pid} --tier quick",
                thorough_cmd=f"./check {pid} --tier thorough",
                evidence_file=f"/verif/evidence/{pid}.json",
                replay_cmd_template="./check --replay {path}",
                engine="symx",
                level_claimed=dict(category=c["category"], text=c["text"], design_ref=c["design"]),
                level_note=c.get("note", COMMON_NOTE),
                technique=c["technique"],
            ))
        else:
            reason = getattr(mod, "NOT_APPLICABLE", None) if mod else None
            na.append(dict(property_id=pid, reason=reason or NA.get(pid, DEFAULT_NA)))
    m = dict(
        version=1,
        setup_cmd="./setup.sh",
        hooks=dict(guard="YT_PROJECT_UNYT_VERIF", enable="no source hooks: all instrumentation is applied at load time by /verif/symx/shims.py (module-global rebinding and one AST rewrite of the loaded unyt.unit_object); nothing in /repo is guarded",
                   baseline_off_cmd="cd /repo && /venv/bin/python -m pytest -ra -q -p no:cacheprovider --timeout=900 --continue-on-collection-errors",
                   source_commits=[], add_only=True),
        engines=[dict(name="symx", path="/verif/symx", serves_properties=[c["property_id"] for c in checks],
                      kind_free_text="dynamic symbolic execution of the real unyt bytecode over z3 terms (SymReal proxies inside real NumPy object arrays and real Unit/UnitRegistry objects), DFS path exploration with re-execution, per-path SMT obligations, replay of models on the unshimmed library")],
        checks=checks,
        notes="Exit codes: 0 = every obligation discharged; 1 = VIOLATION (reproduced counterexample not listed in known_findings.json); 2 = inconclusive (solver unknown, truncated exploration, unsupported path, shim-conformance disagreement, non-reproducing model). Repairs of genuine defects are 'fix:' commits in /repo, listed in known_findings.json with status fixed.",
        not_applicable=na,
    )
    json.dump(m, open(os.path.join(ROOT, "MANIFEST.json"), "w"), indent=1)
    print("MANIFEST.json:", len(checks), "checks,", len(na), "not claimed")


if __name__ == "__main__":
    main()
