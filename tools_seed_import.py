"""Confirm a seeded defect produced by an independent agent and keep it under /verif/seeded/<id>/.

  python3 tools_seed_import.py <agent worktree> <k> <seed id> <property> "<what it needs to manifest>"

Confirms, in a fresh scratch worktree of /repo's HEAD: the patch applies, the package imports, the pinned test suite
still has every stable-passing test passing (BASELINE.json), demo.py exits 0 on the unchanged tree and non-zero on the
changed tree. Only then copies patch.diff, demo.py, notes.txt and writes meta.json."""
import json
import os
import shutil
import subprocess
import sys

ROOT = os.path.dirname(os.path.abspath(__file__))


def sh(cmd):
    return subprocess.run(cmd, shell=True, capture_output=True, text=True)


def main():
    wt_agent, k, sid, prop, needs = sys.argv[1:6]
    src = os.path.join(wt_agent, "_seed", k)
    wt = f"/tmp/seedconfirm_{sid}"
    sh(f"git -C /repo worktree remove --force {wt}")
    r = sh(f"git -C /repo worktree add --detach {wt} HEAD")
    assert r.returncode == 0, r.stderr
    ran = []
    try:
        # run the demo from inside the scratch worktree, at the path the agent used (_seed/<k>/demo.py), so that demos
        # which locate the package relative to their own file import the scratch tree
        os.makedirs(f"{wt}/_seed", exist_ok=True)
        shutil.copytree(src, f"{wt}/_seed/{k}")
        # a demo that pins the path of its author's scratch worktree is made relative to the tree it runs in
        import re
        dp = f"{wt}/_seed/{k}/demo.py"
        txt = open(dp).read()
        new = re.sub(r"(?m)^(\s*)assert [^\n]*/tmp/seed\d_C\d\d[^\n]*$", r"\1pass  # (assertion pinning the author's scratch path removed)", txt)
        new = re.sub(r"""["']/tmp/seed\d_C\d\d/?["']""", "(os.getcwd() + os.sep)", new)
        if new != txt:
            if not re.search(r"^import os|^import os,|^import .*\bos\b", new, re.M):
                new = "import os\n" + new
            open(dp, "w").write(new)
            src_demo_rewritten = new
        else:
            src_demo_rewritten = None
        d0 = sh(f"cd {wt} && /venv/bin/python _seed/{k}/demo.py")
        ran.append(f"unchanged tree: demo.py exit {d0.returncode}")
        r = sh(f"git -C {wt} apply {src}/patch.diff")
        if r.returncode:
            print("PATCH DOES NOT APPLY", r.stderr)
            return 1
        d1 = sh(f"cd {wt} && /venv/bin/python _seed/{k}/demo.py")
        ran.append(f"changed tree: demo.py exit {d1.returncode}")
        t = sh(f"cd {wt} && /venv/bin/python -m pytest -q -p no:cacheprovider --timeout=900 --continue-on-collection-errors "
               f"--junitxml=/tmp/seedconfirm_{sid}.xml; /venv/bin/python {ROOT}/tools_baseline.py /tmp/seedconfirm_{sid}.xml")
        line = [l for l in t.stdout.splitlines() if "stable tests not passing" in l]
        ran.append("changed tree: pinned test suite: " + (line[0] if line else "??"))
        ok = d0.returncode == 0 and d1.returncode != 0 and line and " 0 stable tests not passing" in line[0]
        print("\n".join(ran))
        if not ok:
            print("NOT CONFIRMED", d0.stdout[-300:], d1.stdout[-300:], t.stdout[-400:])
            return 1
        dst = os.path.join(ROOT, "seeded", sid)
        os.makedirs(dst, exist_ok=True)
        for f in ("patch.diff", "demo.py", "notes.txt"):
            if os.path.exists(os.path.join(src, f)):
                shutil.copy(os.path.join(src, f), os.path.join(dst, f))
        if src_demo_rewritten is not None:
            open(os.path.join(dst, "demo.py"), "w").write(src_demo_rewritten)
        json.dump(dict(id=sid, property=prop, needs_to_manifest=needs, produced_by="independent sub-agent given only the property text and a scratch worktree",
                       confirmed=ran, repo_head=sh("git -C /repo rev-parse --short HEAD").stdout.strip()),
                  open(os.path.join(dst, "meta.json"), "w"), indent=1)
        print("kept as", dst)
        return 0
    finally:
        sh(f"git -C /repo worktree remove --force {wt}")
        sh(f"rm -f /tmp/seedconfirm_{sid}.xml")


if __name__ == "__main__":
    sys.exit(main())
