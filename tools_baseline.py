"""compare a junit xml against the stable_pass list of /root/.vp/BASELINE.json"""
import json, sys, xml.etree.ElementTree as ET
base = set(json.load(open('/root/.vp/BASELINE.json'))['stable_pass'])
t = ET.parse(sys.argv[1]).getroot()
ok = set()
for tc in t.iter('testcase'):
    name = f"{tc.get('classname')}::{tc.get('name')}"
    if not any(c.tag in ('failure', 'error', 'skipped') for c in tc):
        ok.add(name)
# classname format in baseline: unyt.tests.test_x.Class::name or unyt.tests.test_x::name
missing = sorted(b for b in base if b not in ok)
print(len(base), 'stable;', len(ok), 'passed now;', len(missing), 'stable tests not passing')
for m in missing[:20]: print('  MISSING', m)
sys.exit(1 if missing else 0)
