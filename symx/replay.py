"""Concrete replay of a counterexample (or a conformance batch) on the untouched unyt from REPO:
ordinary float64 arrays, a real UnitRegistry, no shims."""
import importlib
import json
import math
import os
import sys
import traceback
import warnings

ROOT = os.path.dirname(os.path.dirname(os.path.abspath(__file__)))


def _concrete_run(case, mods, model=None, seed=0):
    from .ctx import AssumptionFailed, ConcreteCtx
    from . import core
    from . import shims
    shims.reset_library(mods)  # every concrete run starts from the state of the freshly imported library, like every symbolic path
    ctx = ConcreteCtx(mods, model=model, seed=seed)
    outcome = "ok"
    detail = None
    with warnings.catch_warnings():
        warnings.simplefilter("ignore")
        try:
            case.fn(ctx)
        except AssumptionFailed:
            outcome = "assumption"
        except core.DomainExit as e:
            outcome = "domain"
        except core.Unsupported as e:
            outcome = "unsupported"
            detail = str(e)
        except Exception as e:
            tb = traceback.extract_tb(e.__traceback__)
            where = next((f"{os.path.basename(f.filename)}:{f.name}" for f in reversed(tb) if "/unyt/" in f.filename), "?")
            outcome = "raise:" + type(e).__name__
            detail = f"{where}: {e}"[:300]
            ctx.failed.append((f"uncaught:{type(e).__name__}", {"where": where, "msg": str(e)[:200]}))
    return ctx, outcome, detail


def _num(v):
    import numpy as np
    if isinstance(v, (np.ndarray, list, tuple)):
        return [_num(e) for e in np.asarray(v).ravel()]
    if isinstance(v, np.generic):
        return v.item()
    if isinstance(v, (int, float, bool, str)) or v is None:
        return v
    return str(v)


def compare_runs(pinned, conc):
    """None if the pinned-symbolic run through the shimmed library and the concrete run through the
    plain library agree, else a description"""
    if conc is None:
        return "no concrete result"
    if "error" in pinned:
        return "pinned run: " + pinned["error"]
    if "error" in conc:
        return "concrete run: " + conc["error"]
    po, co = pinned["outcome"], conc["outcome"]
    if co in ("assumption", "domain") or po in ("domain",):
        return None  # the pin left the harness' domain: nothing to compare
    if po != co:
        return f"outcome {po} vs {co} ({conc.get('detail')})"
    if [tuple(x) for x in pinned["req"]] != [tuple(x) for x in conc["req"]]:
        a = [tuple(x) for x in pinned["req"]]
        b = [tuple(x) for x in conc["req"]]
        diff = [(x, y) for x, y in zip(a, b) if x != y][:3]
        return f"require log differs: {diff} (len {len(a)} vs {len(b)})"
    if len(pinned["obs"]) != len(conc["obs"]):
        return f"observation count {len(pinned['obs'])} vs {len(conc['obs'])}"
    for (l1, v1), (l2, v2) in zip(pinned["obs"], conc["obs"]):
        if l1 != l2:
            return f"observation label {l1} vs {l2}"
        if v1 == "unobservable":
            continue
        if not _same(v1, v2):
            return f"observation {l1}: {v1} vs {v2}"
    return None


def _same(a, b):
    if isinstance(a, list) and isinstance(b, list):
        return len(a) == len(b) and all(_same(x, y) for x, y in zip(a, b))
    if isinstance(a, bool) or isinstance(b, bool) or isinstance(a, str) or isinstance(b, str) or a is None or b is None:
        return a == b
    try:
        a = float(a); b = float(b)
    except (TypeError, ValueError):
        return a == b
    if math.isnan(a) and math.isnan(b):
        return True
    return abs(a - b) <= 1e-9 * max(abs(a), abs(b)) + 1e-300 or a == b


def main():
    path = sys.argv[1]
    verbose = "--verbose" in sys.argv
    conformance = "--conformance" in sys.argv
    payload = json.load(open(path))
    prop = payload["property"]
    sys.path.insert(0, ROOT)
    from . import shims
    mods = shims.load_plain_unyt()
    H = importlib.import_module(f"harness.{prop.lower()}")
    cases = {c.id: c for c in H.cases(payload["tier"], mods)}
    from . import warm
    for cid in ([payload.get("case")] + [it.get("case") for it in payload.get("items", [])]):
        if cid and warm.is_warm(cid) and cid not in cases:
            v = warm.resolve(cases, cid)
            if v is not None:
                cases[cid] = v
    if conformance:
        out = {}
        for cid in payload["cases"]:
            c = cases[cid]
            try:
                ctx, outcome, detail = _concrete_run(c, mods, model=None, seed=payload["seed"])
                out[cid] = {"outcome": outcome, "detail": detail, "req": [[l, bool(ok)] for l, ok in ctx.req_log],
                            "obs": [(l, _num(v)) for l, v in ctx.observations]}
            except BaseException as e:
                out[cid] = {"error": f"{type(e).__name__}: {e}"}
        print(json.dumps(out))
        return 0
    if "--batch" in sys.argv:
        outs = []
        for it in payload["items"]:
            c = cases.get(it["case"])
            if c is None:
                outs.append({"reproduced": False, "error": "unknown case id"})
                continue
            try:
                ctx, outcome, detail = _concrete_run(c, mods, model=it["model"])
                failed = [l for l, _ in ctx.failed]
                outs.append({"reproduced": it["label"] in failed, "failed": failed[:20], "outcome": outcome, "detail": detail,
                             "failed_info": [i for l, i in ctx.failed if l == it["label"]][:1], "batch": True})
            except BaseException as e:
                outs.append({"reproduced": False, "error": f"{type(e).__name__}: {e}"})
        print(json.dumps(outs))
        return 0
    case = cases.get(payload["case"])
    if case is None:
        print(json.dumps({"reproduced": False, "error": "unknown case id"}))
        return 2
    ctx, outcome, detail = _concrete_run(case, mods, model=payload["model"])
    failed = [l for l, _ in ctx.failed]
    label = payload["label"]
    rep = label in failed
    res = {"reproduced": rep, "failed": failed[:20], "outcome": outcome, "detail": detail,
           "failed_info": [i for l, i in ctx.failed if l == label][:1]}
    if verbose:
        print(f"replay of {payload['case']} :: {label} on plain unyt at {os.environ.get('VERIF_REPO', '/repo')}")
        print(" inputs:", json.dumps({k: (float(__import__('fractions').Fraction(v)) if ":" not in v else v) for k, v in payload["model"].items()}))
        print(" outcome:", outcome, detail or "")
        for l, i in ctx.failed:
            print(" FAILED obligation:", l, i)
        print(" reproduced:", rep)
        return 1 if rep else 0
    print(json.dumps(res))
    return 0


if __name__ == "__main__":
    sys.exit(main())
