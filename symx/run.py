"""./check driver: explore every case of a property's harness on 16 workers, discharge the
obligations, replay counterexamples on the untouched library, write the evidence file."""
import argparse
import fnmatch
import hashlib
import importlib
import json
import multiprocessing as mp
import os
import random
import subprocess
import sys
import time
import traceback

ROOT = os.path.dirname(os.path.dirname(os.path.abspath(__file__)))
REPO = os.environ.get("VERIF_REPO", "/repo")
PY = sys.executable

EXIT_OK, EXIT_VIOLATION, EXIT_INCONCLUSIVE = 0, 1, 2

ASSUMPTIONS = [
    "A1 SymReal arithmetic is exact real arithmetic: rounding, overflow, inf/nan are outside the claim",
    "A2 `float` inside unyt.unit_object/unit_registry/array is the identity on a symbolic real",
    "A3 math.isclose in unyt.unit_object is CPython's documented formula as a z3 term",
    "A4 `np` inside unyt modules is real NumPy except: float casts of object payloads are no-ops; dtype(...).type(v) is the identity on a symbolic real; a float64/complex128 dtype built inside unyt compares equal to the dtype of an object payload; isclose/allclose are the formula |a-b| <= atol + rtol*|b|",
    "A5 unyt.array.DISALLOWED_DTYPES without 'O'; the dtype-kind gate in Unit.__mul__ admits 'O' (load-time AST rewrite of the one tuple, checked to exist exactly once)",
    "A6 transcendental functions are uninterpreted; roots are witness variables w>=0, w**q==x; floor/rint/trunc via ToInt",
    "A7 at the start of every path (and of every concrete replay / conformance run) every lru_cache of the unyt modules is cleared and the module-level / class-level containers and simple globals of the unyt modules and the default registry's table and string cache are put back to their state after import (except where a harness says otherwise); inside a path nothing is reset, so histories see all memo layers",
    "A8 NumPy kernels that refuse object payloads are uninterpreted functions of their stripped arguments",
    "A9 SymReal is registered as numbers.Number/Real and carries NumPy-scalar attributes",
    "A10 harness symbol names are checked not to collide with unyt's name alternatives",
    "counterexamples are replayed with IEEE doubles on the unshimmed library before being reported; equalities are asserted up to 1e-6 relative",
]

_G = {}


def _profile_functions(fn_call):
    """run fn_call() while recording the code objects under REPO/unyt that are entered"""
    seen = set()
    prefix = os.path.join(os.path.realpath(REPO), "unyt") + os.sep

    def prof(frame, event, arg):
        if event == "call":
            co = frame.f_code
            f = co.co_filename
            if f.startswith(prefix) and "/tests/" not in f:
                seen.add(f[len(prefix):] + ":" + co.co_qualname)

    sys.setprofile(prof)
    try:
        return fn_call(), seen
    finally:
        sys.setprofile(None)


def _cvc5_version():
    try:
        import cvc5
        return cvc5.__version__
    except Exception:
        return "absent"


def _new_stats(tier):
    return dict(requires=0, ground_true=0, obligations=0, discharged=0, unknown=0, unknown_labels=[], solver_s=0.0,
                max_query_s=0.0, queries=0, samples=[], candidates=[], paths_with_requires=0, paths_witnessed=0,
                paths_infeasible=0, paths_unwitnessed=0, paths_ground_only=0, dropped_infeasible=0, tier=tier)


def run_case(idx):
    """never lets anything but a result leave the worker: a BaseException escaping a pool worker kills it and the pool waits forever"""
    try:
        return _run_case(idx)
    except BaseException as e:  # noqa: BLE001 - turned into a harness error (exit 2) by the aggregator
        case = _G["cases"][idx]
        return dict(id=case.id, paths=0, outcomes={"ok": 0, "raise": 0, "unsupported": 0, "domain": 0, "limit": 0}, truncated=False,
                    error="engine: " + "".join(traceback.format_exception(e))[-1500:], wall=0.0, functions=[], messages=[],
                    allow_unsupported=case.allow_unsupported, bounds=case.bounds, group=case.group, stats=_new_stats(_G["tier"]))


def _run_case(idx):
    from . import core, shims
    from .ctx import SymCtx
    case = _G["cases"][idx]
    mods = _G["mods"]
    tier = _G["tier"]
    seed = _G["seed"]
    t0 = time.time()
    stats = _new_stats(tier)
    stats["cross_left"] = _G.get("cross_per_case", 0) if idx in _G.get("cross_cases", ()) else 0
    stats["cross_timeout_ms"] = 1500 if tier == "quick" else 2500
    ot = case.oblig_timeout_ms or (10000 if tier == "quick" else 60000)
    state = {"first": True, "functions": set()}
    outcomes = {"ok": 0, "raise": 0, "unsupported": 0, "domain": 0, "limit": 0}
    messages = []

    def body(ex):
        shims.reset_library(mods)
        ctx = SymCtx(mods, ex, stats, case.id, seed=seed, oblig_timeout_ms=ot)
        try:
            if state["first"]:
                state["first"] = False
                r, seen = _profile_functions(lambda: case.fn(ctx))
                state["functions"] |= seen
                return r
            return case.fn(ctx)
        except Exception as e:  # uncaught exception of the library under test inside the harness
            if isinstance(e, shims.HarnessError):
                raise
            tb = traceback.extract_tb(e.__traceback__)
            where = next((f"{os.path.basename(f.filename)}:{f.name}" for f in reversed(tb) if "/unyt/" in f.filename), "?")
            ctx.require(f"uncaught:{type(e).__name__}", False, where=where, msg=str(e)[:200])
            raise
        finally:
            ctx.end_path()

    err = None
    try:
        results, truncated = core.explore(body, max_paths=case.max_paths, time_budget=case.budget_s)
    except shims.HarnessError as e:
        results, truncated = [], False
        err = f"HarnessError: {e}"
    except Exception as e:  # engine bug
        results, truncated = [], False
        err = "engine: " + "".join(traceback.format_exception(e))[-1500:]
    for ex, out in results:
        outcomes[out[0]] += 1
        if out[0] in ("unsupported", "limit") and len(messages) < 3:
            messages.append(f"{out[0]}: {out[1]}")
        if out[0] == "raise" and len(messages) < 3:
            messages.append(f"raise: {type(out[1]).__name__}: {str(out[1])[:160]}")
        if out[0] == "raise" and isinstance(out[1], shims.HarnessError) and err is None:
            # a HarnessError raised inside a case function ends the path like a library exception would
            # (core.explore); it must surface as a harness error (exit 2), never pass silently
            err = f"HarnessError: {out[1]}"
    res = dict(id=case.id, paths=len(results), outcomes=outcomes, truncated=truncated, error=err,
               wall=time.time() - t0, functions=sorted(state["functions"]), messages=messages,
               allow_unsupported=case.allow_unsupported, bounds=case.bounds, group=case.group)
    # conformance (pinned run through the shimmed library)
    if idx in _G["conform"]:
        res["pinned"] = run_pinned(case, mods, seed)
    res["stats"] = stats
    return res


def _num(v):
    from .core import SymReal
    import numpy as np
    if isinstance(v, SymReal):
        return float(v)
    if isinstance(v, (np.ndarray, list, tuple)):
        return [_num(e) for e in (np.asarray(v, dtype=object).ravel() if not isinstance(v, np.ndarray) else v.ravel())]
    if isinstance(v, (np.generic,)):
        return v.item()
    if isinstance(v, (int, float, bool, str)) or v is None:
        return v
    return str(v)


def run_pinned(case, mods, seed):
    from . import core, shims
    from .ctx import SymCtx
    stats = _new_stats("pinned")
    box = {}

    def body(ex):
        shims.reset_library(mods)
        ctx = SymCtx(mods, ex, stats, case.id, pins={}, seed=seed)
        box["ctx"] = ctx
        return case.fn(ctx)
    try:
        results, _ = core.explore(body, max_paths=4)
    except (Exception, core.ControlFlow) as e:
        return {"error": f"{type(e).__name__}: {e}"}
    if len(results) != 1:
        return {"error": f"pinned run took {len(results)} paths"}
    ex, out = results[0]
    ctx = box["ctx"]
    obs = []
    for l, v in ctx.observations:
        try:
            obs.append((l, _num(v)))
        except (Exception, core.ControlFlow):
            # an observation that stays a term in pinned mode (a root witness, an uninterpreted kernel): it cannot be compared
            # with the concrete run and is skipped, the obligations of the case are unaffected
            obs.append((l, "unobservable"))
    return {"outcome": out[0] if out[0] != "raise" else "raise:" + type(out[1]).__name__,
            "req": [[l, bool(ok)] for l, ok in ctx.req_log], "obs": obs}


# ------------------------------------------------------------------------------------ killable worker pool

def _worker_main(tasks, results):
    for idx in iter(tasks.get, None):
        results.put(("start", idx, os.getpid()))
        results.put(("done", idx, run_case(idx)))


def _lost_case(idx, why):
    case = _G["cases"][idx]
    return dict(id=case.id, paths=0, outcomes={"ok": 0, "raise": 0, "unsupported": 0, "domain": 0, "limit": 0}, truncated=False,
                error=why, wall=0.0, functions=[], messages=[], allow_unsupported=case.allow_unsupported, bounds=case.bounds,
                group=case.group, stats=_new_stats(_G["tier"]))


def run_pool(order, jobs, tier, on_result):
    """cases are farmed over forked workers that the parent can kill: z3 does not honour its timeout inside some procedures
    (seen: nla::powers computing a huge rational power for minutes), and a check must never hang. A case that exceeds its hard
    wall limit is killed and reported as a harness error (the run is then inconclusive, exit 2, unless it found violations)."""
    import queue
    ctxm = mp.get_context("fork")
    tasks, results = ctxm.Queue(), ctxm.Queue()
    for i in order:
        tasks.put(i)
    limit = float(os.environ.get("VERIF_CASE_HARD_S", "300" if tier == "quick" else "2400"))
    procs, running, out, pending = {}, {}, [], set(order)
    tick = float(os.sysconf("SC_CLK_TCK")) if hasattr(os, "sysconf") else 100.0

    def cpu_s(pid):
        # CPU seconds (user + system) the worker has used so far; the limit is on CPU time so that a loaded machine
        # (other checks running next to this one) does not turn slow cases into harness errors; wall time is the backstop
        try:
            f = open(f"/proc/{pid}/stat").read().rsplit(")", 1)[1].split()
            return (int(f[11]) + int(f[12])) / tick
        except Exception:
            return None

    def spawn():
        p = ctxm.Process(target=_worker_main, args=(tasks, results), daemon=True)
        p.start()
        procs[p.pid] = p

    for _ in range(jobs):
        spawn()
    while pending:
        try:
            msg = results.get(timeout=1.0)
        except queue.Empty:
            msg = None
        if msg is not None:
            if msg[0] == "start":
                running[msg[2]] = (msg[1], (time.time(), cpu_s(msg[2])))
            else:
                _, idx, res = msg
                if idx in pending:
                    pending.discard(idx)
                    out.append(res)
                    on_result(res)
                for pid, (i, _) in list(running.items()):
                    if i == idx:
                        del running[pid]
        now = time.time()
        for pid, (idx, (t0, c0)) in list(running.items()):
            p = procs.get(pid)
            dead = p is None or not p.is_alive()
            c1 = None if (dead or c0 is None) else cpu_s(pid)
            over = (now - t0 > limit) if c1 is None else (c1 - c0 > limit or now - t0 > 8 * limit)
            if dead or over:
                if p is not None:
                    p.kill()
                    p.join(5)
                    procs.pop(pid, None)
                del running[pid]
                if idx in pending:
                    pending.discard(idx)
                    why = ("engine: worker died while running this case" if dead else
                           f"engine: case exceeded the hard limit of {limit:.0f} CPU-seconds (a solver call did not honour its timeout); worker killed")
                    res = _lost_case(idx, why)
                    out.append(res)
                    on_result(res)
                spawn()
        if not running and pending and all(not p.is_alive() for p in procs.values()):
            for idx in list(pending):  # every worker is gone (should not happen): do not wait forever
                pending.discard(idx)
                out.append(_lost_case(idx, "engine: no worker left to run this case"))
    for _ in procs:
        tasks.put(None)
    for p in procs.values():
        p.join(2)
        if p.is_alive():
            p.kill()
    return out


# ------------------------------------------------------------------------------------ driver

def load_harness(prop):
    sys.path.insert(0, ROOT)
    return importlib.import_module(f"harness.{prop.lower()}")


def load_known():
    p = os.path.join(ROOT, "known_findings.json")
    if not os.path.exists(p):
        return []
    return json.load(open(p)).get("findings", [])


def match_known(known, prop, case_id, label):
    # a warm variant `<case>@after[<other case>]` showing a recorded finding of <case> itself is that finding
    key = f"{case_id.split('@after[', 1)[0]}::{label}"
    for k in known:
        if k.get("property") == prop and k.get("status") == "known" and fnmatch.fnmatchcase(key, k["pattern"]):
            return k
    return None


def replay_batch(prop, groups, tier, jobs=1):
    """opt-in (harness module sets BATCH_REPLAY = True; its cases must not touch global unyt state): replay the models of
    the first candidate of every (case, label) group in a few subprocesses instead of one interpreter start per model.
    Only *reproduced* results are taken from the batch; everything else falls back to the one-subprocess-per-model route."""
    d = os.path.join(ROOT, "replays", prop)
    os.makedirs(d, exist_ok=True)
    items, index = [], []
    for key, cands in sorted(groups.items()):
        c = cands[0]
        for mi, model in enumerate(c["models"]):
            items.append(dict(case=c["case"], label=c["label"], model=model))
            index.append((id(c), mi))
    nchunk = max(1, min(jobs, len(items) // 32))
    chunks = [list(range(i, len(items), nchunk)) for i in range(nchunk)]

    def run_chunk(ci):
        path = os.path.join(d, f"_batch{ci}.json")
        json.dump(dict(property=prop, tier=tier, items=[items[i] for i in chunks[ci]]), open(path, "w"))
        try:
            r = subprocess.run([PY, "-m", "symx.replay", path, "--batch"], cwd=ROOT, capture_output=True, text=True,
                               timeout=3600, env=dict(os.environ, VERIF_REPO=REPO))
            outs = json.loads(r.stdout.strip().splitlines()[-1])
            return {index[i]: o for i, o in zip(chunks[ci], outs) if o.get("reproduced")}
        except Exception:
            return {}
        finally:
            try:
                os.remove(path)
            except OSError:
                pass
    from multiprocessing.pool import ThreadPool
    pre = {}
    with ThreadPool(nchunk) as tp:
        for part in tp.map(run_chunk, range(nchunk)):
            pre.update(part)
    return pre


def replay_candidate(prop, cand, tier, pre=None):
    d = os.path.join(ROOT, "replays", prop)
    os.makedirs(d, exist_ok=True)
    for mi, model in enumerate(cand["models"]):
        payload = dict(property=prop, case=cand["case"], label=cand["label"], tier=tier, model=model, info=cand.get("info", {}))
        h = hashlib.sha1(json.dumps([cand["case"], cand["label"]], sort_keys=True).encode()).hexdigest()[:12]
        path = os.path.join(d, f"{h}.json")
        json.dump(payload, open(path, "w"), indent=1)
        out = (pre or {}).get((id(cand), mi))
        if out is not None:
            payload["replay_result"] = out
            json.dump(payload, open(path, "w"), indent=1)
            return path, out
        r = subprocess.run([PY, "-m", "symx.replay", path], cwd=ROOT, capture_output=True, text=True, timeout=600,
                           env=dict(os.environ, VERIF_REPO=REPO))
        try:
            out = json.loads(r.stdout.strip().splitlines()[-1])
        except Exception:
            out = {"reproduced": False, "error": (r.stdout + r.stderr)[-800:]}
        if out.get("reproduced"):
            payload["replay_result"] = out
            json.dump(payload, open(path, "w"), indent=1)
            return path, out
    return None, out


def main(argv=None):
    ap = argparse.ArgumentParser()
    ap.add_argument("prop", nargs="?")
    ap.add_argument("--tier", default=os.environ.get("VERIF_TIER", "quick"), choices=["quick", "thorough"])
    ap.add_argument("--replay")
    ap.add_argument("--jobs", type=int, default=int(os.environ.get("VERIF_JOBS", "16")))
    ap.add_argument("--only", help="fnmatch pattern on case ids")
    ap.add_argument("--list", action="store_true")
    ap.add_argument("--no-evidence", action="store_true")
    ap.add_argument("--no-warm", action="store_true", help="skip the history axis (warm variants, symx/warm.py)")
    ap.add_argument("-v", action="store_true")
    a = ap.parse_args(argv)
    if a.replay:
        r = subprocess.run([PY, "-m", "symx.replay", a.replay, "--verbose"], cwd=ROOT)
        return r.returncode
    prop = a.prop.upper()
    import warnings
    # NumPy's "mean of empty slice" etc. on enumerated empty shapes: noise on stderr, never part of a verdict
    # (harnesses that test for warnings install their own filter inside warnings.catch_warnings)
    warnings.filterwarnings("ignore", category=RuntimeWarning)
    seed = int(os.environ.get("VERIF_SEED", "0"))
    t0 = time.time()
    H = load_harness(prop)
    from . import shims
    try:
        mods = shims.load_unyt()
    except Exception as e:
        print(f"HARNESS-ERROR property={prop} could not load unyt with shims: {type(e).__name__}: {e}")
        return EXIT_INCONCLUSIVE
    cases = H.cases(a.tier, mods)
    ids = [c.id for c in cases]
    assert len(set(ids)) == len(ids), "duplicate case ids: " + str([i for i in ids if ids.count(i) > 1][:5])
    from . import warm
    warm_cases, warm_info = warm.expand(H, cases, a.tier, seed, known=load_known(), prop=prop) if not a.no_warm else ([], dict(variants=0, rule="--no-warm"))
    cases = cases + warm_cases
    if a.only:
        cases = [c for c in cases if fnmatch.fnmatchcase(c.id, a.only)]
    if a.list:
        for c in cases:
            print(c.id)
        return 0
    rnd = random.Random(seed)
    nconf = getattr(H, "CONFORM", {"quick": 24, "thorough": 96})[a.tier]
    confable = [i for i, c in enumerate(cases) if c.conform]
    conform = set(rnd.sample(confable, min(nconf, len(confable))))
    # second-opinion budget: queries per case that are re-decided by cvc5 (0 disables)
    # (a seeded sample of the cases, so that the second opinion costs seconds, not minutes: cvc5 is slow on non-linear reals)
    cross = int(os.environ.get("VERIF_CROSS_PER_CASE", "1" if a.tier == "quick" else "2"))
    ncross = int(os.environ.get("VERIF_CROSS_CASES", "64" if a.tier == "quick" else "300"))
    try:
        import cvc5  # noqa: F401
    except Exception:
        cross = 0
    cross_cases = set(random.Random(seed + 1).sample(range(len(cases)), min(ncross, len(cases)))) if cross else set()
    _G.update(cases=cases, mods=mods, tier=a.tier, seed=seed, conform=conform, cross_per_case=cross, cross_cases=cross_cases)
    order = sorted(range(len(cases)), key=lambda i: -cases[i].weight)
    results = []
    if a.jobs <= 1 or len(cases) <= 1:
        for i in order:
            results.append(run_case(i))
    else:
        def show(r):
            if a.v:
                print(f"  {r['id']}: {r['paths']} paths {r['outcomes']} {r['wall']:.1f}s obl={r['stats']['obligations']} unk={r['stats']['unknown']} cand={len(r['stats']['candidates'])} {r['messages'][:1]} {r['error'] or ''}", flush=True)
        results = run_pool(order, min(a.jobs, len(cases)), a.tier, show)
    results.sort(key=lambda r: r["id"])
    # ---------------------------------------------------------------- aggregate
    tot = _new_stats(a.tier)
    functions = set()
    problems = []
    paths = 0
    nontrivial_cases = 0
    outcomes = {"ok": 0, "raise": 0, "unsupported": 0, "domain": 0, "limit": 0}
    cross_tot = dict(checked=0, agree=0, unknown=0, error=0, cvc5_s=0.0, disagree=[], errors=[])
    for r in results:
        st = r["stats"]
        for k in ("requires", "ground_true", "obligations", "discharged", "unknown", "queries", "paths_with_requires",
                  "paths_witnessed", "paths_infeasible", "paths_unwitnessed", "paths_ground_only", "dropped_infeasible"):
            tot[k] += st[k]
        tot["solver_s"] += st["solver_s"]
        tot["max_query_s"] = max(tot["max_query_s"], st["max_query_s"])
        tot["candidates"] += st["candidates"]
        if len(tot["samples"]) < 6:
            tot["samples"] += st["samples"][:1]
        functions |= set(r["functions"])
        paths += r["paths"]
        cx = st.get("cross")
        if cx:
            for k in ("checked", "agree", "unknown", "error"):
                cross_tot[k] += cx[k]
            cross_tot["cvc5_s"] += cx["cvc5_s"]
            cross_tot["disagree"] += cx["disagree"]
            cross_tot["errors"] = (cross_tot["errors"] + cx.get("errors", []))[:5]
        for k in outcomes:
            outcomes[k] += r["outcomes"][k]
        if st["discharged"] > 0:
            nontrivial_cases += 1
        if r["error"]:
            problems.append(f"{r['id']}: {r['error']}")
        if r["truncated"]:
            problems.append(f"{r['id']}: exploration truncated after {r['paths']} paths / {r['wall']:.0f}s")
        if (r["outcomes"]["unsupported"] or r["outcomes"]["limit"]) and not r["allow_unsupported"]:
            problems.append(f"{r['id']}: unsupported/limit paths {r['messages']}")
        if st["unknown"]:
            problems.append(f"{r['id']}: {st['unknown']} obligations returned unknown {st['unknown_labels'][:3]}")
        if st["requires"] == 0 or (st["paths_witnessed"] + st["paths_ground_only"] == 0):
            problems.append(f"{r['id']}: vacuous (requires={st['requires']}, witnessed paths={st['paths_witnessed']}, ground-only paths={st['paths_ground_only']})")
        if st["paths_unwitnessed"]:
            problems.append(f"{r['id']}: satisfiability of {st['paths_unwitnessed']} path condition(s) unknown")
    for d in cross_tot["disagree"][:10]:
        problems.append("solver disagreement (z3 vs cvc5 on the same SMT-LIB2 query): " + d)
    # ---------------------------------------------------------------- conformance
    conf_checked, conf_bad = 0, []
    pinned = {r["id"]: r["pinned"] for r in results if "pinned" in r}
    if pinned:
        cf = os.path.join(ROOT, "replays", prop, "_conformance.json")
        os.makedirs(os.path.dirname(cf), exist_ok=True)
        json.dump(dict(property=prop, tier=a.tier, seed=seed, cases=sorted(pinned)), open(cf, "w"))
        rr = subprocess.run([PY, "-m", "symx.replay", cf, "--conformance"], cwd=ROOT, capture_output=True, text=True,
                            timeout=3600, env=dict(os.environ, VERIF_REPO=REPO))
        try:
            conc = json.loads(rr.stdout.strip().splitlines()[-1])
        except Exception:
            conc = None
            problems.append("conformance run failed: " + (rr.stdout + rr.stderr)[-600:])
        if conc is not None:
            from .replay import compare_runs
            for cid, p in pinned.items():
                conf_checked += 1
                d = compare_runs(p, conc.get(cid))
                if d:
                    conf_bad.append(f"{cid}: {d}")
            for b in conf_bad[:10]:
                problems.append("shim conformance: " + b)
    # ---------------------------------------------------------------- replay candidates
    known = load_known()
    violations, known_hits, nonrepro = [], {}, []
    groups = {}
    for cand in tot["candidates"]:
        groups.setdefault((cand["case"], cand["label"]), []).append(cand)
    seen_keys = set(groups)
    pre = replay_batch(prop, groups, a.tier, a.jobs) if (getattr(H, "BATCH_REPLAY", False) and len(groups) > 8) else None
    def _replay_group(item):
        key, cands = item
        path, out, cand = None, None, None
        for cand in cands[:4]:
            path, out = replay_candidate(prop, cand, a.tier, pre)
            if path is not None:
                break
        return key, cand, path, out

    items = sorted(groups.items())
    # counterexamples matching a known finding first, then the rest; once REPLAY_CAP unlisted violations have been reproduced the
    # run has failed anyway and the remaining candidates are not replayed (reported as a count)
    REPLAY_CAP = int(os.environ.get("VERIF_REPLAY_CAP", "60"))
    items.sort(key=lambda it: 0 if match_known(known, prop, it[0][0], it[0][1]) else 1)
    not_replayed = 0
    from multiprocessing.pool import ThreadPool
    chunk = max(1, 4 * a.jobs)
    for c0 in range(0, len(items), chunk):
        part = items[c0:c0 + chunk]
        if len(violations) >= REPLAY_CAP:
            not_replayed += len(part)
            continue
        if len(part) > 2 and a.jobs > 1:  # replays are independent subprocesses writing distinct files: run them concurrently
            with ThreadPool(min(a.jobs, len(part))) as tp:
                replayed = tp.map(_replay_group, part)
        else:
            replayed = [_replay_group(it) for it in part]
        for key, cand, path, out in replayed:
            if path is None:
                nonrepro.append(f"{key[0]}::{key[1]} -> {str(out)[:300]}")
                continue
            k = match_known(known, prop, cand["case"], cand["label"])
            if k:
                known_hits.setdefault(k["pattern"], (k, []))[1].append(f"{cand['case']}::{cand['label']}")
            else:
                violations.append((cand, path))
    for n in nonrepro[:10]:
        problems.append("counterexample did not reproduce on the unshimmed library (encoding or shim at fault): " + n)
    wall = time.time() - t0
    # ---------------------------------------------------------------- evidence
    level = getattr(H, "LEVEL", "other")
    cov = dict(
        explanation=getattr(H, "EXPLANATION", ""),
        technique="bounded symbolic execution of the real unyt bytecode over z3 terms (symx); obligations pc & not(P) decided by z3",
        cases=len(results), evaluations=paths, distinct_nontrivial=nontrivial_cases,
        rule="one evaluation = one explored path of one harness case; a case is non-trivial if at least one of its obligations needed the solver (was not ground-true) and was discharged",
        paths=paths, path_outcomes=outcomes, requires=tot["requires"], ground_true=tot["ground_true"],
        obligations=tot["obligations"], discharged=tot["discharged"], unknown=tot["unknown"], solver_queries=tot["queries"],
        counterexamples=len(seen_keys), counterexamples_reproduced=len(violations) + sum(len(v[1]) for v in known_hits.values()),
        known_findings_matched=sorted(known_hits), paths_with_requires=tot["paths_with_requires"],
        paths_witnessed_satisfiable=tot["paths_witnessed"], paths_infeasible=tot["paths_infeasible"], obligations_dropped_on_infeasible_paths=tot["dropped_infeasible"],
        paths_unwitnessed=tot["paths_unwitnessed"], paths_with_ground_checks_only=tot["paths_ground_only"],
        solver=f"z3 {__import__('z3').get_version_string()}", solver_s=round(tot["solver_s"], 2), max_query_s=round(tot["max_query_s"], 2),
        functions_encoded=sorted(functions), bounds=getattr(H, "BOUNDS", {}).get(a.tier, ""), outside=getattr(H, "OUTSIDE", ""),
        shim_conformance=dict(cases_checked=conf_checked, disagreements=len(conf_bad)),
        second_solver=dict(solver="cvc5 " + _cvc5_version(), budget_per_case=_G.get("cross_per_case", 0), cases_sampled=len(_G.get("cross_cases", ())), queries_rechecked=cross_tot["checked"],
                           agree=cross_tot["agree"], cvc5_unknown_or_timeout=cross_tot["unknown"], cvc5_rejected_syntax=cross_tot["error"],
                           disagreements=len(cross_tot["disagree"]), cvc5_s=round(cross_tot["cvc5_s"], 2), rejected_samples=cross_tot["errors"][:3]),
        samples=tot["samples"][:5] + [{"case_ids": [r["id"] for r in results[:: max(1, len(results) // 8)]][:8]}],
        inconclusive=problems[:20], exhaustive=False,
        history_axis=dict(warm_info, explored=sum(1 for r in results if warm.is_warm(r["id"]))),
    )
    if hasattr(H, "coverage_extra"):
        cov.update(H.coverage_extra(results, a.tier))
    ev = dict(property_id=prop, tier=a.tier, seed=seed, level=level, coverage=cov, assumptions=ASSUMPTIONS + list(getattr(H, "ASSUMPTIONS", [])),
              wall_s=round(wall, 2), violations=len(violations))
    if not a.no_evidence and not a.only:
        os.makedirs(os.path.join(ROOT, "evidence"), exist_ok=True)
        json.dump(ev, open(os.path.join(ROOT, "evidence", f"{prop}.json"), "w"), indent=1)
    # ---------------------------------------------------------------- report
    print(f"{prop} tier={a.tier}: {len(results)} cases, {paths} paths, {tot['obligations']} obligations "
          f"({tot['discharged']} discharged, {tot['unknown']} unknown, {len(seen_keys)} counterexamples), "
          f"{tot['ground_true']} ground checks, solver {tot['solver_s']:.1f}s, wall {wall:.1f}s")
    if cross_tot["checked"]:
        print(f"  second solver cvc5: {cross_tot['checked']} queries re-decided, {cross_tot['agree']} agree, {cross_tot['unknown']} unknown/timeout, "
              f"{cross_tot['error']} not parsed, {len(cross_tot['disagree'])} disagree, {cross_tot['cvc5_s']:.1f}s")
    for pat, (k, hits) in sorted(known_hits.items()):
        what = k["what"]
        if what.startswith(f"known: property={prop} "):
            what = what[len(f"known: property={prop} "):]
        print(f"KNOWN-FINDING: property={prop} {what} [{len(hits)} counterexample(s), e.g. {hits[0]}]")
    if not_replayed:
        print(f"  {not_replayed} further counterexample(s) not replayed: {len(violations)} unlisted violations were already reproduced")
    for cand, path in violations:
        print(f"VIOLATION property={prop} replay={path} case={cand['case']} obligation={cand['label']} info={cand.get('info')}")
    for p in problems[:30]:
        print("INCONCLUSIVE:", p)
    if violations:
        return EXIT_VIOLATION
    if problems:
        return EXIT_INCONCLUSIVE
    return EXIT_OK


if __name__ == "__main__":
    sys.exit(main())
