"""symx core: proxy values over z3 terms, path explorer, polymorphic contexts.

The real unyt code is executed by the ordinary interpreter; the data flowing through it
are SymReal proxies (z3 Real terms) held in real NumPy object arrays / Unit fields.
SymBool.__bool__ asks the Explorer, which forks (DFS with re-execution).
"""
import itertools
import math
import numbers
import time
from fractions import Fraction

import numpy as np
import z3


class ControlFlow(BaseException):
    """Engine control exceptions derive from BaseException so that `except Exception`
    in the code under test (and in harnesses) never swallows them."""


class Unsupported(ControlFlow):
    pass


class Infeasible(ControlFlow):
    pass


class PathLimit(ControlFlow):
    pass


class DomainExit(ControlFlow):
    """the path left the real-number domain (sqrt of a negative, division by zero ...):
    NumPy would have produced nan/inf there, which is outside every claim (A1)."""


# --------------------------------------------------------------------------- terms

def rv(v):
    """exact z3 numeral of a python number"""
    if isinstance(v, bool):
        raise TypeError("bool is not a real")
    if isinstance(v, int):
        return z3.RealVal(v)
    if isinstance(v, Fraction):
        return z3.RealVal(f"{v.numerator}/{v.denominator}")
    if isinstance(v, float):
        if math.isnan(v) or math.isinf(v):
            raise DomainExit(f"non-finite constant {v}")
        f = Fraction(v)
        return z3.RealVal(f"{f.numerator}/{f.denominator}")
    raise TypeError(type(v))


def lift(v):
    """python/numpy/sympy number or SymReal -> z3 term, None if not a number"""
    if isinstance(v, SymReal):
        return v.t
    if isinstance(v, (bool, np.bool_)):
        return z3.RealVal(int(v))
    if isinstance(v, (int, float, Fraction)):
        return rv(v)
    if isinstance(v, np.generic):
        if v.dtype.kind in "fiu":
            return rv(v.item())
        return None
    if isinstance(v, np.ndarray):
        if v.shape == () or v.size == 1:
            e = np.asarray(v).reshape(())[()]  # base-class view: a 0-d unyt_quantity would index to itself
            if isinstance(e, np.ndarray):
                raise Unsupported("0-d array nested inside an object payload")
            return lift(e)
        return None
    # sympy numbers
    if hasattr(v, "is_Number") and getattr(v, "is_Number", False):
        if getattr(v, "is_Rational", False):
            return rv(Fraction(int(v.p), int(v.q)))
        return rv(float(v))
    return None


def zabs(t):
    return z3.If(t >= 0, t, -t)


def zmax(a, b):
    return z3.If(a >= b, a, b)


def zmin(a, b):
    return z3.If(a <= b, a, b)


_nl_cache = {}


def nonlinear(t):
    k = t.get_id()
    r = _nl_cache.get(k)
    if r is not None:
        return r[0]
    r = False
    if z3.is_app(t):
        kind = t.decl().kind()
        if kind == z3.Z3_OP_MUL:
            nonconst = [c for c in t.children() if not z3.is_rational_value(c)]
            if len(nonconst) > 1:
                r = True
        elif kind in (z3.Z3_OP_DIV, z3.Z3_OP_POWER, z3.Z3_OP_IDIV, z3.Z3_OP_MOD):
            if not z3.is_rational_value(t.children()[1]):
                r = True
        elif kind == z3.Z3_OP_UNINTERPRETED and t.num_args() > 0:
            r = False
        if not r:
            r = any(nonlinear(c) for c in t.children())
    if len(_nl_cache) > 200000:
        _nl_cache.clear()
    _nl_cache[k] = (r, t)  # keeps t alive: AST ids are only unique while the term is alive
    return r


# --------------------------------------------------------------------------- explorer

class Explorer:
    cur = None
    FEAS_TIMEOUT_MS = 150

    def __init__(self, schedule=()):
        self.solver = z3.Solver()
        self.solver.set("timeout", self.FEAS_TIMEOUT_MS)
        self.schedule = list(schedule)
        self.pos = 0
        self.trace = []
        self.pc = []
        self.cache = {}
        self.queries = 0
        self.qtime = 0.0
        self.blind = 0
        self.witness_n = 0
        self.max_decisions = 4000
        self.positive = set()
        self._keep = []

    def mark_positive(self, term):
        self.positive.add(term.get_id())
        self._keep.append(term)

    def known_pos(self, t):
        if z3.is_rational_value(t):
            return t.numerator_as_long() > 0
        if t.get_id() in self.positive:
            return True
        if z3.is_app(t):
            k = t.decl().kind()
            if k in (z3.Z3_OP_MUL, z3.Z3_OP_DIV, z3.Z3_OP_ADD):
                return all(self.known_pos(c) for c in t.children())
            if k == z3.Z3_OP_POWER:
                return self.known_pos(t.children()[0])
        return False

    def fresh(self, prefix="w"):
        self.witness_n += 1
        return z3.Real(f"{prefix}!{self.witness_n}")

    def assume(self, term):
        if isinstance(term, SymBool):
            term = term.t
        elif isinstance(term, (bool, np.bool_)):
            if not term:
                raise Infeasible()
            return
        term = z3.simplify(term)
        if z3.is_true(term):
            return
        if z3.is_false(term):
            raise Infeasible()
        self.pc.append(term)
        if not nonlinear(term):
            self.solver.add(term)

    def _check(self, term):
        self.queries += 1
        t = time.time()
        self.solver.push()
        self.solver.add(term)
        r = self.solver.check()
        self.solver.pop()
        self.qtime += time.time() - t
        return r

    NL_TIMEOUT_MS = 100

    def _check_full(self, term):
        if not self.NL_TIMEOUT_MS:
            return z3.unknown
        self.queries += 1
        t = time.time()
        s = z3.Solver()
        s.set("timeout", self.NL_TIMEOUT_MS)
        s.add(*self.pc)
        s.add(term)
        r = s.check()
        self.qtime += time.time() - t
        return r

    def decide(self, term):
        term = z3.simplify(term)
        if z3.is_true(term):
            return True
        if z3.is_false(term):
            return False
        key = term.get_id()
        if key in self.cache:
            return self.cache[key]
        if len(self.trace) > self.max_decisions:
            raise PathLimit("too many decisions on one path")
        if self.pos < len(self.schedule):
            d = self.schedule[self.pos]
            self.pos += 1
            self.trace.append((d, True))
        else:
            if nonlinear(term):
                # nonlinear branch: ask a full (nlsat) solver with a short budget; unknown => fork (sound)
                self.blind += 1
                rt = self._check_full(term)
                if rt == z3.unsat:
                    d, forked = False, False
                else:
                    rf = self._check_full(z3.Not(term))
                    if rf == z3.unsat:
                        d, forked = True, False
                    else:
                        d, forked = True, True
            else:
                rt = self._check(term)
                if rt == z3.unsat:
                    d, forked = False, False
                else:
                    rf = self._check(z3.Not(term))
                    if rf == z3.unsat:
                        d, forked = True, False
                    else:
                        d, forked = True, True
            self.pos += 1
            self.trace.append((d, forked))
        c = term if d else z3.simplify(z3.Not(term))
        self.pc.append(c)
        if not nonlinear(c):
            self.solver.add(c)
        nt = z3.simplify(z3.Not(term))
        self.cache[key] = d
        self.cache[nt.get_id()] = not d
        self._keep.append(term)  # AST ids are only unique while the term is alive
        self._keep.append(nt)
        return d


def explore(fn, max_paths=20000, time_budget=None, on_path_start=None):
    """Run fn(explorer) once per feasible path. Returns list of (explorer, outcome).
    outcome = ("ok", value) | ("raise", exc) | ("unsupported", exc) | ("domain", exc) | ("limit", exc)"""
    pending = [[]]
    results = []
    t0 = time.time()
    truncated = False
    while pending:
        sched = pending.pop()
        ex = Explorer(sched)
        Explorer.cur = ex
        if on_path_start:
            on_path_start(ex)
        try:
            out = ("ok", fn(ex))
        except Infeasible:
            out = None
        except Unsupported as e:
            out = ("unsupported", e)
        except DomainExit as e:
            out = ("domain", e)
        except PathLimit as e:
            out = ("limit", e)
        except Exception as e:  # the code under test raised
            out = ("raise", e)
        finally:
            Explorer.cur = None
        for i in range(len(sched), len(ex.trace)):
            d, forked = ex.trace[i]
            if forked:
                pending.append([t[0] for t in ex.trace[:i]] + [not d])
        if out is not None:
            results.append((ex, out))
        if len(results) >= max_paths or (time_budget and time.time() - t0 > time_budget):
            truncated = bool(pending)
            break
    return results, truncated


# --------------------------------------------------------------------------- proxies

def _cur():
    ex = Explorer.cur
    if ex is None:
        raise Unsupported("symbolic decision outside of an exploration")
    return ex


class SymBool:
    __slots__ = ("t",)

    def __init__(self, t):
        self.t = t

    def __bool__(self):
        return _cur().decide(self.t)

    @staticmethod
    def _l(o):
        if isinstance(o, SymBool):
            return o.t
        if isinstance(o, (bool, np.bool_)):
            return z3.BoolVal(bool(o))
        return None

    def __and__(self, o):
        l = self._l(o)
        return NotImplemented if l is None else SymBool(z3.And(self.t, l))

    __rand__ = __and__

    def __or__(self, o):
        l = self._l(o)
        return NotImplemented if l is None else SymBool(z3.Or(self.t, l))

    __ror__ = __or__

    def __xor__(self, o):
        l = self._l(o)
        return NotImplemented if l is None else SymBool(z3.Xor(self.t, l))

    __rxor__ = __xor__

    def __invert__(self):
        return SymBool(z3.Not(self.t))

    def __eq__(self, o):
        l = self._l(o)
        return NotImplemented if l is None else SymBool(self.t == l)

    def __ne__(self, o):
        l = self._l(o)
        return NotImplemented if l is None else SymBool(self.t != l)

    __hash__ = None

    def __repr__(self):
        return f"B<{self.t}>"


_UF = {}


def uf(name, arity=1):
    k = (name, arity)
    if k not in _UF:
        R = z3.RealSort()
        _UF[k] = z3.Function(name, *([R] * arity), R)
    return _UF[k]


class SymReal:
    """a real number known only as a z3 term; quacks like a NumPy scalar where unyt asks"""
    __slots__ = ("t",)
    shape = ()
    size = 1
    ndim = 0
    itemsize = 8

    def __init__(self, t):
        self.t = z3.Real(t) if isinstance(t, str) else t

    # numpy-scalar look-alikes ------------------------------------------------
    @property
    def dtype(self):
        return np.dtype(object)

    @property
    def real(self):
        return self

    @property
    def imag(self):
        return 0.0

    @property
    def T(self):
        return self

    def view(self, *a, **k):
        return self

    def item(self):
        return self

    def copy(self):
        return self

    def squeeze(self, *a, **k):
        return self

    def reshape(self, *shape, **k):
        a = np.empty((), dtype=object)
        a[()] = self
        return a.reshape(*shape, **k)

    def ravel(self):
        return self.reshape(1)

    def astype(self, *a, **k):
        return self

    def conjugate(self):
        return self

    conj = conjugate

    def __deepcopy__(self, memo):
        return self

    def __copy__(self):
        return self

    def __reduce__(self):
        raise Unsupported("pickling a symbolic real")

    # arithmetic ----------------------------------------------------------------
    def _b(self, o, f):
        if isinstance(o, np.ndarray) and hasattr(o, "units"):
            # like float.__mul__(unyt_quantity): defer to the quantity's reflected operator (keeps the unit)
            return NotImplemented
        l = lift(o)
        if l is None:
            return NotImplemented
        return SymReal(f(self.t, l))

    def _c(self, o, f):
        l = lift(o)
        if l is None:
            return NotImplemented
        return SymBool(f(self.t, l))

    def __add__(self, o): return self._b(o, lambda a, b: a + b)
    def __radd__(self, o): return self._b(o, lambda a, b: b + a)
    def __sub__(self, o): return self._b(o, lambda a, b: a - b)
    def __rsub__(self, o): return self._b(o, lambda a, b: b - a)
    def __mul__(self, o): return self._b(o, lambda a, b: a * b)
    def __rmul__(self, o): return self._b(o, lambda a, b: b * a)

    @staticmethod
    def _div(a, b):
        sb = z3.simplify(b)
        if z3.is_rational_value(sb):
            if sb.numerator_as_long() == 0:
                raise DomainExit("division by zero")
            return a / b
        ex = _cur()
        if not ex.known_pos(b) and not ex.decide(b != 0):
            raise DomainExit("division by zero")
        return a / b

    def __truediv__(self, o): return self._b(o, self._div)
    def __rtruediv__(self, o): return self._b(o, lambda a, b: self._div(b, a))

    @staticmethod
    def _floordiv(a, b):
        return z3.ToReal(z3.ToInt(SymReal._div(a, b)))

    @staticmethod
    def _mod(a, b):
        # numpy/python semantics: result has the sign of the divisor: a - b*floor(a/b)
        return a - b * z3.ToReal(z3.ToInt(SymReal._div(a, b)))

    def __floordiv__(self, o): return self._b(o, self._floordiv)
    def __rfloordiv__(self, o): return self._b(o, lambda a, b: self._floordiv(b, a))
    def __mod__(self, o): return self._b(o, self._mod)
    def __rmod__(self, o): return self._b(o, lambda a, b: self._mod(b, a))

    def __divmod__(self, o):
        l = lift(o)
        if l is None:
            return NotImplemented
        return SymReal(self._floordiv(self.t, l)), SymReal(self._mod(self.t, l))

    def __rdivmod__(self, o):
        l = lift(o)
        if l is None:
            return NotImplemented
        return SymReal(self._floordiv(l, self.t)), SymReal(self._mod(l, self.t))

    def __neg__(self): return SymReal(-self.t)
    def __pos__(self): return self
    def __abs__(self): return SymReal(zabs(self.t))

    def __pow__(self, p, mod=None):
        if isinstance(p, SymReal):
            sp = z3.simplify(p.t)
            if z3.is_rational_value(sp):
                p = Fraction(sp.numerator_as_long(), sp.denominator_as_long())
            else:
                return SymReal(uf("pow", 2)(self.t, p.t))
        if isinstance(p, np.ndarray):
            if p.size != 1:
                return NotImplemented
            p = p.reshape(())[()]
        try:
            if isinstance(p, (int, Fraction)) and not isinstance(p, bool):
                f = Fraction(p)
            elif isinstance(p, (float, np.floating)):
                f = Fraction(float(p)).limit_denominator(1000)
                if abs(float(f) - float(p)) > 1e-12 * max(1.0, abs(float(p))):
                    return SymReal(uf("pow", 2)(self.t, rv(float(p))))
            elif isinstance(p, np.integer):
                f = Fraction(int(p))
            else:
                f = Fraction(str(p))  # sympy Rational / Integer / Float
                f = f.limit_denominator(1000)
        except (ValueError, TypeError):
            return NotImplemented
        return SymReal(power_term(self.t, f))

    def __rpow__(self, o):
        l = lift(o)
        if l is None:
            return NotImplemented
        return SymReal(uf("pow", 2)(l, self.t))

    def __eq__(self, o): return self._c(o, lambda a, b: a == b)
    def __ne__(self, o): return self._c(o, lambda a, b: a != b)
    def __lt__(self, o): return self._c(o, lambda a, b: a < b)
    def __le__(self, o): return self._c(o, lambda a, b: a <= b)
    def __gt__(self, o): return self._c(o, lambda a, b: a > b)
    def __ge__(self, o): return self._c(o, lambda a, b: a >= b)

    def __hash__(self):
        # a constant: all symbolic reals collide, so dict/set/lru_cache look-ups fall through to `==`, which is a
        # symbolic comparison decided (forked) by the explorer - the faithful model of float keys. A look-up of a
        # symbolic key among concrete float keys does not find them (stated in ASSUMPTIONS as part of A9).
        return 0x5E1

    def __bool__(self):
        return _cur().decide(self.t != 0)

    def __float__(self):
        s = z3.simplify(self.t)
        if z3.is_rational_value(s):
            return s.numerator_as_long() / s.denominator_as_long()
        raise Unsupported("float() on a symbolic real")

    def __int__(self):
        s = z3.simplify(self.t)
        if z3.is_rational_value(s):
            return int(Fraction(s.numerator_as_long(), s.denominator_as_long()))
        raise Unsupported("int() on a symbolic real")

    __index__ = None

    # math.floor/ceil/trunc protocol: NumPy's object-dtype loops of np.floor/np.ceil/np.trunc call these
    def __floor__(self):
        return self.floor()

    def __ceil__(self):
        return self.ceil()

    def __trunc__(self):
        return self.trunc()

    def __round__(self, n=None):
        if n:
            raise Unsupported("round(x, n)")
        return self.rint()

    def is_integer(self):
        raise Unsupported("is_integer() on a symbolic real (unit cancellation with symbolic scales)")

    def __repr__(self):
        return f"S<{self.t}>"

    def __format__(self, spec):
        return repr(self)

    # methods called by NumPy's object-dtype ufunc loops ------------------------------
    def sqrt(self): return SymReal(power_term(self.t, Fraction(1, 2)))
    def cbrt(self): return SymReal(power_term(self.t, Fraction(1, 3)))
    def square(self): return SymReal(self.t * self.t)
    def reciprocal(self): return SymReal(self._div(z3.RealVal(1), self.t))
    def fabs(self): return abs(self)
    def floor(self): return SymReal(z3.ToReal(z3.ToInt(self.t)))
    def ceil(self): return SymReal(-z3.ToReal(z3.ToInt(-self.t)))

    def trunc(self):
        fl = z3.ToReal(z3.ToInt(self.t))
        ce = -z3.ToReal(z3.ToInt(-self.t))
        return SymReal(z3.If(self.t >= 0, fl, ce))

    def rint(self):
        # round half to even
        fl = z3.ToInt(self.t)
        frac = self.t - z3.ToReal(fl)
        up = z3.Or(frac > rv(Fraction(1, 2)), z3.And(frac == rv(Fraction(1, 2)), fl % 2 == 1))
        return SymReal(z3.ToReal(z3.If(up, fl + 1, fl)))

    def sign(self):
        return SymReal(z3.If(self.t > 0, z3.RealVal(1), z3.If(self.t < 0, z3.RealVal(-1), z3.RealVal(0))))

    def hypot(self, o):
        l = lift(o)
        return SymReal(power_term(self.t * self.t + l * l, Fraction(1, 2)))

    def arctan2(self, o): return SymReal(uf("arctan2", 2)(self.t, lift(o)))
    def logaddexp(self, o): return SymReal(uf("logaddexp", 2)(self.t, lift(o)))
    def logaddexp2(self, o): return SymReal(uf("logaddexp2", 2)(self.t, lift(o)))
    def copysign(self, o):
        l = lift(o)
        return SymReal(z3.If(l >= 0, zabs(self.t), -zabs(self.t)))
    def nextafter(self, o): return SymReal(uf("nextafter", 2)(self.t, lift(o)))
    def heaviside(self, o):
        l = lift(o)
        return SymReal(z3.If(self.t < 0, z3.RealVal(0), z3.If(self.t > 0, z3.RealVal(1), l)))
    def fmod(self, o):
        l = lift(o)
        q = self._div(self.t, l)
        tq = z3.If(q >= 0, z3.ToReal(z3.ToInt(q)), -z3.ToReal(z3.ToInt(-q)))
        return SymReal(self.t - l * tq)
    def ldexp(self, o): return SymReal(uf("ldexp", 2)(self.t, lift(o)))
    def isfinite(self): return True
    def isnan(self): return False
    def isinf(self): return False
    def signbit(self): return SymBool(self.t < 0)
    def deg2rad(self): return SymReal(self.t * rv(math.pi / 180.0))
    def rad2deg(self): return SymReal(self.t * rv(180.0 / math.pi))
    radians = deg2rad
    degrees = rad2deg
    def spacing(self): return SymReal(uf("spacing")(self.t))
    def modf(self):
        tr = self.trunc()
        return SymReal(self.t - tr.t), tr
    def frexp(self): raise Unsupported("frexp")


def _make_uf_method(name):
    def m(self):
        return SymReal(uf(name)(self.t))
    m.__name__ = name
    return m


for _n in ("sin", "cos", "tan", "arcsin", "arccos", "arctan", "sinh", "cosh", "tanh", "arcsinh",
           "arccosh", "arctanh", "exp", "exp2", "expm1", "log", "log2", "log10", "log1p"):
    setattr(SymReal, _n, _make_uf_method(_n))

numbers.Number.register(SymReal)
numbers.Real.register(SymReal)


def power_term(t, f):
    """t ** f for a rational f, as a z3 term (witness variable for roots)"""
    f = Fraction(f)
    if f.denominator == 1:
        n = f.numerator
        if n == 0:
            return z3.RealVal(1)
        r = t
        for _ in range(abs(n) - 1):
            r = r * t
        if n < 0:
            return SymReal._div(z3.RealVal(1), r)
        return r
    st = z3.simplify(t)
    if z3.is_rational_value(st):
        v = Fraction(st.numerator_as_long(), st.denominator_as_long())
        if v < 0:
            raise DomainExit("root of a negative constant")
        return rv(float(v) ** float(f))
    ex = _cur()
    p, q = f.numerator, f.denominator
    if not ex.known_pos(t):
        if q % 2 == 0:
            if not ex.decide(t >= 0):
                raise DomainExit("even root of a negative number")
        else:
            if not ex.decide(t >= 0):
                raise Unsupported("odd root of a negative symbolic number")
        if p < 0 and not ex.decide(t != 0):
            raise DomainExit("negative power of zero")
    # canonical witness per (term, q): w >= 0 and w**q == t
    key = ("root", t.get_id(), q)
    w = ex.cache.get(key)
    if w is None:
        w = ex.fresh("root")
        wq = w
        for _ in range(q - 1):
            wq = wq * w
        ex.pc.append(w >= 0)
        ex.solver.add(w >= 0)
        ex.pc.append(wq == t)
        ex.cache[key] = w
        ex._keep.append(t)
        if ex.known_pos(t):
            ex.pc.append(w > 0)
            ex.solver.add(w > 0)
            ex.mark_positive(w)
    return power_term(w, Fraction(p))


def obj0(v):
    a = np.empty((), dtype=object)
    a[()] = v
    return a


def symarray(name, shape):
    a = np.empty(shape, dtype=object)
    for idx in np.ndindex(*shape):
        a[idx] = SymReal(name + "".join(f"_{i}" for i in idx))
    return a


def elements(x):
    """flat list of the elements of a value (array of any dtype, scalar, SymReal)"""
    if isinstance(x, SymReal):
        return [x]
    a = np.asarray(x)
    if a.dtype == object:
        return list(a.ravel())
    return [e.item() for e in a.ravel()]


# ----------------------------------------------------------------- polymorphic logic helpers

def _anysym(*xs):
    return any(isinstance(x, SymBool) for x in xs)


def _bt(x):
    if isinstance(x, SymBool):
        return x.t
    return z3.BoolVal(bool(x))


def And(*cs):
    cs = [c for c in cs]
    if _anysym(*cs):
        return SymBool(z3.And(*[_bt(c) for c in cs]))
    return all(bool(c) for c in cs)


def Or(*cs):
    if _anysym(*cs):
        return SymBool(z3.Or(*[_bt(c) for c in cs]))
    return any(bool(c) for c in cs)


def Not(c):
    if isinstance(c, SymBool):
        return SymBool(z3.Not(c.t))
    return not bool(c)


def Implies(a, b):
    return Or(Not(a), b)


def Iff(a, b):
    if _anysym(a, b):
        return SymBool(_bt(a) == _bt(b))
    return bool(a) == bool(b)


def ite(c, a, b):
    if isinstance(c, SymBool):
        return SymReal(z3.If(c.t, lift(a), lift(b)))
    return a if c else b


TOL = Fraction(1, 10**6)


def vabs(x):
    if isinstance(x, SymReal):
        return abs(x)
    return abs(x)


def close(a, b, extra=0, tol=TOL):
    """|a-b| <= tol*(|a|+|b|) + extra, polymorphic; the band the property grants to rounding"""
    if isinstance(a, SymReal) or isinstance(b, SymReal) or isinstance(extra, SymReal):
        A, B, E = lift(a), lift(b), lift(extra)
        return SymBool(z3.Or(A == B, zabs(A - B) <= rv(tol) * (zabs(A) + zabs(B)) + E))
    a = float(a); b = float(b)
    if math.isnan(a) or math.isnan(b):
        return False
    if a == b:
        return True
    return abs(a - b) <= float(tol) * (abs(a) + abs(b)) + float(extra)


def all_close(xs, ys, extra=0, tol=TOL):
    xs = elements(xs); ys = elements(ys)
    if len(xs) != len(ys):
        return False
    return And(*[close(x, y, extra, tol) for x, y in zip(xs, ys)]) if xs else True


def exact_eq(a, b):
    if isinstance(a, SymReal) or isinstance(b, SymReal):
        return SymBool(lift(a) == lift(b))
    return a == b


def all_exact(xs, ys):
    xs = elements(xs); ys = elements(ys)
    if len(xs) != len(ys):
        return False
    return And(*[exact_eq(x, y) for x, y in zip(xs, ys)]) if xs else True


def model_value(m, t):
    """float value of a z3 term under a model (algebraic numbers approximated)"""
    v = m.eval(t, model_completion=True)
    if z3.is_rational_value(v):
        return Fraction(v.numerator_as_long(), v.denominator_as_long())
    if z3.is_algebraic_value(v):
        a = v.approx(20)
        return Fraction(a.numerator_as_long(), a.denominator_as_long())
    raise ValueError(f"cannot evaluate {t} -> {v}")


_CVC5_RESERVED = {"sin", "cos", "tan", "csc", "sec", "cot", "arcsin", "arccos", "arctan", "arccsc", "arcsec", "arccot", "exp", "sqrt", "pi",
                  "abs", "divisible", "to_int", "to_real", "is_int", "iand", "int2bv", "bv2nat", "pow2", "exp2", "log"}


def cvc5_check(smt2_text, timeout_ms=4000):
    """decide an SMT-LIB2 benchmark (as dumped by z3's Solver.to_smt2) with cvc5; returns 'sat' | 'unsat' | 'unknown'"""
    import cvc5
    import re
    # uninterpreted functions named like cvc5's transcendental theory symbols (sin, tan, exp ...) are renamed
    for name in set(re.findall(r"\(declare-fun ([A-Za-z_][A-Za-z0-9_]*) ", smt2_text)) & _CVC5_RESERVED:
        smt2_text = re.sub(r"(?<=[\s(])" + name + r"(?=[\s)])", "uf_" + name, smt2_text)
    slv = cvc5.Solver()
    slv.setOption("tlimit-per", str(int(timeout_ms)))
    slv.setLogic("ALL")
    parser = cvc5.InputParser(slv)
    parser.setStringInput(cvc5.InputLanguage.SMT_LIB_2_6, smt2_text, "q")
    sm = parser.getSymbolManager()
    ans = "unknown"
    while True:
        cmd = parser.nextCommand()
        if cmd.isNull():
            break
        out = str(cmd.invoke(slv, sm)).strip()
        if out in ("sat", "unsat", "unknown"):
            ans = out
        elif out.startswith("(error"):
            raise RuntimeError(out)
    return ans
