"""A8: uninterpreted stand-ins for NumPy kernels that refuse object payloads (LAPACK, FFT, interp,
histogram ...). Installed as `np` inside unyt._array_functions: every `np.X._implementation`
first tries the real NumPy implementation; only if that refuses the symbolic payload is the call
answered by uninterpreted z3 functions K_F[key](payload...), one per output element, whose output
structure is learned from a dry run of the real kernel on float placeholders."""
import inspect

import numpy as np
import z3

from .core import SymReal, Unsupported, lift
from .shims import NpShim, _contains_sym

R = z3.RealSort()
_KF = {}


def _flat_terms(x):
    if isinstance(x, SymReal):
        return [x.t]
    if isinstance(x, np.ndarray) and x.dtype == object:
        return [lift(e) for e in x.view(np.ndarray).ravel()]
    if isinstance(x, (list, tuple)) and _contains_sym(x):
        out = []
        for e in x:
            ft = _flat_terms(e)
            if ft is None:
                ft = [lift(v) for v in np.asarray(e, dtype=float).ravel()]
            out += ft
        return out
    return None


def _placeholder(x, rng):
    if isinstance(x, SymReal):
        return float(rng.uniform(0.5, 2.0))
    if isinstance(x, np.ndarray) and x.dtype == object:
        a = rng.uniform(0.5, 2.0, size=x.shape)
        if a.ndim == 2 and a.shape[0] == a.shape[1]:
            a = a @ a.T + np.eye(a.shape[0])
        elif a.ndim == 1:
            a = np.sort(a)
        return a
    if isinstance(x, (list, tuple)) and _contains_sym(x):
        return type(x)(_placeholder(e, rng) for e in x)
    return x


def _keyrepr(v):
    if isinstance(v, np.ndarray):
        return f"ndarray{v.shape}{v.dtype}:{v.tolist()!r}"
    return repr(v)


class SymComplex:
    """a complex kernel output known only as two z3 real terms (opt-in: KernelModel.complex_outputs)"""
    __slots__ = ("re", "im")
    shape = ()
    size = 1
    ndim = 0

    def __init__(self, re, im):
        self.re, self.im = re, im

    def _s(self, o, f):
        if isinstance(o, SymComplex):
            return NotImplemented
        if lift(o) is None:
            return NotImplemented
        return SymComplex(f(self.re, o), f(self.im, o))

    def __mul__(self, o): return self._s(o, lambda a, b: a * b)
    __rmul__ = __mul__
    def __truediv__(self, o): return self._s(o, lambda a, b: a / b)
    def __neg__(self): return SymComplex(-self.re, -self.im)
    def conjugate(self): return SymComplex(self.re, -self.im)
    conj = conjugate

    @property
    def real(self): return self.re

    @property
    def imag(self): return self.im

    __hash__ = None

    def __repr__(self):
        return f"C<{self.re!r},{self.im!r}>"


class KernelModel:
    log = []
    calls = []               # structured log of modelled calls: dict(name, key, items, result) (harnesses clear it per path)
    complex_outputs = False  # opt-in: complex kernel outputs become SymComplex pairs instead of Unsupported
    strict = False           # opt-in: see __call__
    strict_patterns = ("SymReal", "dtype('O')", "safely", "not supported for the input types", "must be real", "No loop matching", "Cannot cast")
    integer_outputs = False  # opt-in: integer/boolean kernel outputs (counts, ranks) become real-valued uninterpreted functions

    def __init__(self, real):
        self.real = real

    def __call__(self, *args, **kwargs):
        impl = self.real._implementation
        if not any(_contains_sym(a) for a in list(args) + list(kwargs.values())):
            return impl(*args, **kwargs)
        try:
            return impl(*args, **kwargs)
        except (TypeError, ValueError, AttributeError, np.exceptions.DTypePromotionError, np.linalg.LinAlgError, SystemError) as e:
            msg = str(e)
            if KernelModel.strict:
                # opt-in: only NumPy's own refusal of the object payload is answered by the model; an exception raised by
                # unyt code (innermost frame under the repository) is the library's outcome and propagates
                tb = e.__traceback__
                while tb.tb_next is not None:
                    tb = tb.tb_next
                if "/unyt/" in tb.tb_frame.f_code.co_filename or not any(s in msg for s in KernelModel.strict_patterns):
                    raise
            elif not any(s in msg for s in ("SymReal", "dtype('O')", "object", "Object", "safely", "not supported for the input types", "must be real", "ufunc", "No loop matching")):
                raise
        return self.model(args, kwargs)

    def model(self, args, kwargs):
        impl = self.real._implementation
        rng = np.random.default_rng(0)
        ph_args = [_placeholder(a, rng) for a in args]
        ph_kwargs = {k: _placeholder(v, rng) for k, v in kwargs.items()}
        try:  # a placeholder for a symbolic `range=` argument must be (lo, hi)-ordered along its last axis for the dry run
            b = inspect.signature(impl).bind(*ph_args, **ph_kwargs)
            r = b.arguments.get("range")
            if isinstance(r, np.ndarray) and r.dtype.kind == "f" and r.ndim >= 1:
                b.arguments["range"] = np.sort(r, axis=-1)
                ph_args, ph_kwargs = list(b.args), dict(b.kwargs)
        except (TypeError, ValueError):
            pass
        dry = impl(*ph_args, **ph_kwargs)
        name = getattr(self.real, "__module__", "numpy") + "." + self.real.__name__
        try:
            sig = inspect.signature(impl).bind(*args, **kwargs)
            sig.apply_defaults()
            items = list(sig.arguments.items())
        except (TypeError, ValueError):
            items = [(f"a{i}", a) for i, a in enumerate(args)] + sorted(kwargs.items())
        sym_in = []
        key = [name]
        for n, v in items:
            ft = _flat_terms(v)
            if ft is not None:
                sym_in += ft
                key.append((n, "payload", tuple(np.shape(v))))
            else:
                key.append((n, _keyrepr(v)))
        key = repr(key)
        KernelModel.log.append(key)

        def mk(out, tag):
            out = np.asarray(out)
            res = np.empty(out.shape, dtype=object)
            for i, idx in enumerate(np.ndindex(*out.shape)):
                fname = f"K[{key}]{tag}[{i}]"
                f = _KF.get((fname, len(sym_in)))
                if f is None:
                    f = z3.Function(fname, *([R] * len(sym_in)), R)
                    _KF[(fname, len(sym_in))] = f
                res[idx] = SymReal(f(*sym_in))
            return res if res.shape != () else res[()]

        def conv(o, tag):
            if isinstance(o, (tuple, list)):
                return type(o)(conv(e, f"{tag}.{j}") for j, e in enumerate(o))
            if hasattr(o, "_fields") or (hasattr(o, "__len__") and not isinstance(o, np.ndarray) and not np.isscalar(o)):
                try:
                    return type(o)(*[conv(e, f"{tag}.{j}") for j, e in enumerate(o)])
                except TypeError:
                    pass
            a = np.asarray(o)
            if a.dtype.kind == "f":
                return mk(a, tag)
            if a.dtype.kind == "c":
                if KernelModel.complex_outputs:
                    re, im = mk(a.real, tag + "re"), mk(a.imag, tag + "im")
                    if a.shape == ():
                        return SymComplex(re, im)
                    res = np.empty(a.shape, dtype=object)
                    for idx in np.ndindex(*a.shape):
                        res[idx] = SymComplex(re[idx], im[idx])
                    return res
                raise Unsupported(f"complex-valued kernel output of {name}")
            if a.dtype.kind in "iub" and a.size and KernelModel.integer_outputs:
                return mk(a, tag)
            return o  # integer / boolean outputs depend on data ordering: keep the dry-run value only if payload-free
        if isinstance(dry, tuple) or hasattr(dry, "_fields"):
            outs = []
            for j, o in enumerate(dry):
                a = np.asarray(o)
                if a.dtype.kind in "iub" and a.size and not KernelModel.integer_outputs:
                    raise Unsupported(f"data-dependent integer output of {name}")
                outs.append(conv(o, f".{j}"))
            try:
                res = type(dry)(*outs) if hasattr(dry, "_fields") else tuple(outs)
            except TypeError:
                res = tuple(outs)
            KernelModel.calls.append(dict(name=name, key=key, items=items, result=res))
            return res
        a = np.asarray(dry)
        if a.dtype.kind in "iub" and a.size and not KernelModel.integer_outputs:
            raise Unsupported(f"data-dependent integer output of {name}")
        res = conv(dry, "")
        KernelModel.calls.append(dict(name=name, key=key, items=items, result=res))
        return res


class FuncProxy:
    def __init__(self, real):
        self._real = real
        self._implementation = KernelModel(real)

    call_fallback = False  # opt-in: a public call np.X(...) on stripped symbolic arrays that NumPy refuses is answered by K_X too

    def __call__(self, *a, **k):
        if not FuncProxy.call_fallback or not isinstance(self._implementation, KernelModel):
            return self._real(*a, **k)
        vals = list(a) + list(k.values())
        if not any(_contains_sym(v) for v in vals) or any(hasattr(v, "units") for v in vals):
            return self._real(*a, **k)
        return self._implementation(*a, **k)

    def __getattr__(self, k):
        return getattr(self._real, k)

    def __eq__(self, o):
        return self._real is getattr(o, "_real", o)

    def __hash__(self):
        return hash(self._real)


class NsProxy:
    def __init__(self, real):
        self._real = real

    def __getattr__(self, k):
        v = getattr(self._real, k)
        if hasattr(v, "_implementation"):
            return FuncProxy(v)
        if inspect.ismodule(v) and v.__name__.startswith("numpy"):
            return NsProxy(v)
        return v


class _ModelProxy(FuncProxy):
    """np.isclose / np.allclose: `_implementation` is the A4 formula model"""

    def __init__(self, real, model):
        self._real = real
        self._implementation = model


def _unit_tolerance(a, k):
    """does rtol/atol (positional 3rd/4th or keyword) carry units? Then the A4 formula would hide what NumPy's own body
    does with it (unyt arithmetic on `atol + rtol*abs(y)`)."""
    return any(hasattr(v, "units") for v in list(a[2:4]) + [k.get("rtol"), k.get("atol")])


def _isclose_body(a, b, rtol=1e-5, atol=1e-8, equal_nan=False):
    """the body of numpy.isclose (numpy/_core/numeric.py) with `isfinite(y)` taken as true (A1): evaluated with NumPy's own
    ufuncs so that a unit-carrying tolerance meets unyt's __array_ufunc__ exactly as in production"""
    x, y = np.asanyarray(a), np.asanyarray(b)
    return np.less_equal(np.abs(x - y), atol + rtol * np.abs(y)) | (x == y)


class NpShimAF(NpShim):
    @property
    def isclose(self):
        def model(*a, **k):
            if _unit_tolerance(a, k):
                r = _isclose_body(*a, **k)
                return r[()] if isinstance(r, np.ndarray) and r.shape == () else r
            return NpShim.isclose(self, *a, **k)
        return _ModelProxy(np.isclose, model)

    @property
    def allclose(self):
        def model(*a, **k):
            if _unit_tolerance(a, k):
                from .core import And
                r = _isclose_body(*a, **k)
                return And(*[e for e in np.asarray(r, dtype=object).ravel()])
            return NpShim.allclose(self, *a, **k)
        return _ModelProxy(np.allclose, model)

    object_empty = False  # opt-in (A4 extension): np.empty(shape) inside unyt._array_functions allocates an object buffer, so that
                          # `_sanitize_range` can store converted (symbolic) range limits where production stores float64 numbers

    def empty(self, shape, dtype=float, **k):
        if NpShimAF.object_empty and np.dtype(dtype).kind == "f":
            return np.empty(shape, dtype=object)
        return np.empty(shape, dtype=dtype, **k)

    def __getattr__(self, k):
        v = getattr(np, k)
        if hasattr(v, "_implementation"):
            return FuncProxy(v)
        if inspect.ismodule(v) and v.__name__.startswith("numpy"):
            return NsProxy(v)
        return v
