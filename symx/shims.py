"""Shims A2-A5, A7: load the real unyt from the repository's current source and re-bind a few
module globals so that object-dtype payloads of SymReal flow where float payloads would.
No file under the repository is modified."""
import ast
import importlib.abc
import importlib.machinery
import inspect
import math
import os
import sys

import numpy as np
import z3

from .core import (DomainExit, SymBool, SymReal, Unsupported, lift, obj0, rv, zabs, zmax)

REPO = os.environ.get("VERIF_REPO", "/repo")
GATE = ("f", "u", "i", "c")


class HarnessError(Exception):
    pass


# ------------------------------------------------------------------ A5: load-time rewrite

class _Rewriter(ast.NodeTransformer):
    def __init__(self):
        self.hits = 0

    def visit_Compare(self, node):
        self.generic_visit(node)
        for c in node.comparators:
            if isinstance(c, ast.Tuple) and tuple(getattr(e, "value", None) for e in c.elts) == GATE:
                c.elts.append(ast.Constant("O"))
                self.hits += 1
        return node


class _Loader(importlib.machinery.SourceFileLoader):
    hits = 0

    def source_to_code(self, data, path, *, _optimize=-1):
        tree = ast.parse(data, path)
        rw = _Rewriter()
        tree = rw.visit(tree)
        ast.fix_missing_locations(tree)
        _Loader.hits += rw.hits
        return compile(tree, path, "exec", dont_inherit=True, optimize=_optimize)


class _Finder(importlib.abc.MetaPathFinder):
    def find_spec(self, name, path, target=None):
        if name != "unyt.unit_object":
            return None
        spec = importlib.machinery.PathFinder.find_spec(name, path)
        if spec is None:
            return None
        spec.loader = _Loader(name, spec.origin)
        return spec


# ------------------------------------------------------------------ A2: float

class _FloatMeta(type):
    def __instancecheck__(cls, o):
        return isinstance(o, (float, SymReal))

    def __call__(cls, x=0.0):
        if isinstance(x, SymReal):
            return x
        if isinstance(x, np.ndarray) and x.dtype == object and x.size == 1:
            e = np.asarray(x).reshape(())[()]  # np.asarray: an ndarray subclass (unyt_quantity) would index to itself
            if isinstance(e, SymReal):
                return e
            return float(e)
        return float(x)


class symfloat(metaclass=_FloatMeta):
    """stands in for the builtin float inside unyt modules: identity on SymReal"""


# ------------------------------------------------------------------ A3: math.isclose

class MathShim:
    def __getattr__(self, k):
        return getattr(math, k)

    # functions of the math module a change to unyt may plausibly reach for, on symbolic reals (anything else on a
    # symbolic real ends the path as Unsupported: float() on a proxy)
    @staticmethod
    def sqrt(x):
        return x.sqrt() if isinstance(x, SymReal) else math.sqrt(x)

    @staticmethod
    def pow(x, y):
        return x ** y if isinstance(x, SymReal) or isinstance(y, SymReal) else math.pow(x, y)

    @staticmethod
    def fabs(x):
        return abs(x) if isinstance(x, SymReal) else math.fabs(x)

    @staticmethod
    def floor(x):
        return x.__floor__() if isinstance(x, SymReal) else math.floor(x)

    @staticmethod
    def ceil(x):
        return x.__ceil__() if isinstance(x, SymReal) else math.ceil(x)

    @staticmethod
    def trunc(x):
        return x.__trunc__() if isinstance(x, SymReal) else math.trunc(x)

    @staticmethod
    def cbrt(x):
        return x.cbrt() if isinstance(x, SymReal) else math.cbrt(x)

    @staticmethod
    def prod(xs, start=1):
        r = start
        for x in xs:
            r = r * x
        return r

    @staticmethod
    def fsum(xs):
        r = 0.0
        for x in xs:
            r = r + x
        return r

    @staticmethod
    def isfinite(x):
        return x.isfinite() if isinstance(x, SymReal) else math.isfinite(x)

    @staticmethod
    def isnan(x):
        return x.isnan() if isinstance(x, SymReal) else math.isnan(x)

    @staticmethod
    def isinf(x):
        return x.isinf() if isinstance(x, SymReal) else math.isinf(x)

    @staticmethod
    def isclose(a, b, *, rel_tol=1e-9, abs_tol=0.0):
        if not isinstance(a, SymReal) and not isinstance(b, SymReal):
            return math.isclose(a, b, rel_tol=rel_tol, abs_tol=abs_tol)
        A, B = lift(a), lift(b)
        sa, sb = z3.simplify(A), z3.simplify(B)
        if sa.get_id() == sb.get_id():
            return True
        # optional hook (additive): a SymReal subclass that knows an exact normal form of both operands may decide the
        # CPython formula itself (returns True/False) or decline (returns None); see harness/unitterms_common.MonoReal
        hook = getattr(a, "_isclose_hook", None)
        if hook is not None:
            r = hook(b, rel_tol, abs_tol)
            if r is not None:
                return r
        return SymBool(z3.Or(A == B, zabs(A - B) <= zmax(rv(rel_tol) * zmax(zabs(A), zabs(B)), rv(abs_tol))))


# ------------------------------------------------------------------ A4: numpy proxy

class _DT:
    """np.dtype wrapper whose .type() is the identity on SymReal"""

    def __init__(self, real):
        self._r = real

    def __getattr__(self, k):
        return getattr(self._r, k)

    def type(self, v):
        if isinstance(v, SymReal):
            return v
        if isinstance(v, np.ndarray) and v.dtype == object:
            return v
        return self._r.type(v)

    def __eq__(self, o):
        o = o._r if isinstance(o, _DT) else o
        # A4: an object payload stands for the float64 / complex128 payload of the same item size, so a dtype unyt builds
        # for "the float type of this array" compares equal to the dtype of that payload (`arr.dtype == np.dtype("f8")`
        # guards take the branch they take for float data). Only dtypes built inside unyt are _DT; nothing else changes.
        if isinstance(o, np.dtype) and o.kind == "O" and self._r.kind in "fc" and self._r.itemsize == (8 if self._r.kind == "f" else 16):
            return True
        return self._r == o

    def __hash__(self):
        return hash(self._r)

    def __repr__(self):
        return repr(self._r)

    def __str__(self):
        return str(self._r)


def _undt(d):
    return d._r if isinstance(d, _DT) else d


def _is_sym_payload(a):
    if isinstance(a, SymReal):
        return True
    if isinstance(a, np.ndarray) and a.dtype == object:
        return True
    return False


def _contains_sym(a):
    if isinstance(a, SymReal):
        return True
    if isinstance(a, np.ndarray):
        return a.dtype == object
    if isinstance(a, (list, tuple)):
        return any(_contains_sym(x) for x in a)
    return False


def _unwrap0d(a):
    """NumPy unwraps 0-d float arrays found inside a sequence but keeps 0-d *object* arrays as elements: replace 0-d
    object arrays (e.g. unyt_quantity around a SymReal) nested in a list/tuple by their element, as for floats"""
    if isinstance(a, (list, tuple)):
        return type(a)(_unwrap0d(x) for x in a) if type(a) in (list, tuple) else a
    if isinstance(a, np.ndarray) and a.dtype == object and a.shape == ():
        return np.asarray(a)[()]
    return a


class NpShim:
    """thin proxy of the numpy module: only float casts of symbolic payloads and the
    closeness predicates are overridden; everything else is numpy's own attribute"""
    cast_log = None  # list collecting (what, dtype) requests when C17 asks for it

    def __init__(self, extra=None):
        self._extra = extra or {}

    def __getattr__(self, k):
        if k in self._extra:
            return self._extra[k]
        return getattr(np, k)

    def _log(self, what, dtype):
        if NpShim.cast_log is not None and dtype is not None:
            NpShim.cast_log.append((what, str(np.dtype(_undt(dtype)))))

    def dtype(self, *a, **k):
        r = np.dtype(*[_undt(x) for x in a], **k)
        self._log("dtype", r)
        return _DT(r)

    def asarray(self, a, dtype=None, **k):
        dtype = _undt(dtype)
        self._log("asarray", dtype)
        if isinstance(a, SymReal):
            return obj0(a)
        if isinstance(a, np.ndarray) and a.dtype == object and (dtype is None or np.dtype(dtype).kind in "fc"):
            return np.asarray(a)
        if isinstance(a, (list, tuple)):
            a = _unwrap0d(a)
        if dtype is not None and np.dtype(dtype).kind in "fc" and _contains_sym(a):
            return np.asarray(a, dtype=object)
        return np.asarray(a, dtype=dtype, **k)

    def asanyarray(self, a, dtype=None, **k):
        dtype = _undt(dtype)
        if isinstance(a, SymReal):
            return obj0(a)
        if isinstance(a, np.ndarray) and a.dtype == object and (dtype is None or np.dtype(dtype).kind in "fc"):
            return np.asanyarray(a)
        return np.asanyarray(a, dtype=dtype, **k)

    def array(self, a, dtype=None, **k):
        dtype = _undt(dtype)
        self._log("array", dtype)
        if isinstance(a, SymReal):
            return obj0(a)
        if dtype is not None and np.dtype(dtype).kind in "fc" and _contains_sym(a):
            dtype = object
        if isinstance(a, (list, tuple)):
            a = _unwrap0d(a)
        return np.array(a, dtype=dtype, **k)

    def isscalar(self, x):
        return isinstance(x, SymReal) or np.isscalar(x)

    # closeness predicates as formulas (A4)
    @staticmethod
    def _isclose_terms(a, b, rtol, atol, equal_nan=False):
        a = np.asarray(a, dtype=object) if _contains_sym(a) else np.asarray(a)
        b = np.asarray(b, dtype=object) if _contains_sym(b) else np.asarray(b)
        rt = lift(np.asarray(rtol, dtype=object).reshape(-1)[0]) if _contains_sym(rtol) else lift(float(np.asarray(rtol).reshape(-1)[0]))
        at = lift(np.asarray(atol, dtype=object).reshape(-1)[0]) if _contains_sym(atol) else lift(float(np.asarray(atol).reshape(-1)[0]))
        A, B = np.broadcast_arrays(a, b)
        out = np.empty(A.shape, dtype=object)
        for idx in np.ndindex(*A.shape):
            # additive: a payload element that declares itself NaN (harness/c06.SymNaN) is close to nothing, except to another NaN
            # under equal_nan=True (NumPy's definition); elements without the marker are unaffected
            na, nb = getattr(A[idx], "_symx_nan", False), getattr(B[idx], "_symx_nan", False)
            if na or nb:
                out[idx] = SymBool(z3.BoolVal(bool(equal_nan and na and nb)))
                continue
            x, y = lift(A[idx]), lift(B[idx])
            out[idx] = SymBool(zabs(x - y) <= at + rt * zabs(y))
        return out

    def isclose(self, a, b, rtol=1e-5, atol=1e-8, equal_nan=False):
        if not (_contains_sym(a) or _contains_sym(b) or _contains_sym(rtol) or _contains_sym(atol)):
            return np.isclose(a, b, rtol=rtol, atol=atol, equal_nan=equal_nan)
        out = self._isclose_terms(a, b, rtol, atol, equal_nan)
        return out if out.shape != () else out[()]

    def allclose(self, a, b, rtol=1e-5, atol=1e-8, equal_nan=False):
        if not (_contains_sym(a) or _contains_sym(b) or _contains_sym(rtol) or _contains_sym(atol)):
            return np.allclose(a, b, rtol=rtol, atol=atol, equal_nan=equal_nan)
        out = self._isclose_terms(a, b, rtol, atol, equal_nan)
        ts = [e.t for e in out.ravel()]
        return SymBool(z3.And(*ts)) if ts else True


# ------------------------------------------------------------------ install

_installed = {}


def load_unyt(extra_np=None):
    """import the real unyt from REPO (with the A5 gate rewrite) and install the shims"""
    if _installed:
        return _installed["mods"]
    if "unyt" in sys.modules:
        raise HarnessError("unyt imported before the symx loader was installed")
    sys.path.insert(0, REPO)
    sys.meta_path.insert(0, _Finder())
    import unyt
    if not os.path.realpath(unyt.__file__).startswith(os.path.realpath(REPO) + os.sep):
        raise HarnessError(f"unyt loaded from {unyt.__file__}, not from {REPO}")
    if _Loader.hits != 1:
        raise HarnessError(f"A5: expected exactly one dtype-kind gate {GATE} in unyt/unit_object.py, found {_Loader.hits}")
    import unyt._array_functions as AF
    import unyt.array as UA
    import unyt.equivalencies as UE
    import unyt.testing as UT
    import unyt.unit_object as UO
    import unyt.unit_registry as UR
    import unyt.unit_systems as US
    if "O" not in UA.DISALLOWED_DTYPES:
        raise HarnessError("A5: DISALLOWED_DTYPES no longer lists 'O'")
    UA.DISALLOWED_DTYPES = tuple(c for c in UA.DISALLOWED_DTYPES if c != "O")
    shim = NpShim()
    for m in (UA, UO, UE):
        if not hasattr(m, "np"):
            raise HarnessError(f"A4: module {m.__name__} has no global np")
        m.np = shim
    if hasattr(UT, "np"):
        UT.np = shim
    if hasattr(AF, "np"):
        from .kernels import NpShimAF
        AF.np = NpShimAF()
    for m in (UO, UR, UA):
        m.float = symfloat
    ms = MathShim()
    for m in (UO, UR, UA, UE, US, AF, UT):  # every unyt module that has (or is given by a change) a global `math`
        if getattr(m, "math", None) is math:
            m.math = ms
    UO.math = ms
    mods = dict(unyt=unyt, UA=UA, UO=UO, UR=UR, US=US, UE=UE, UT=UT, AF=AF)
    _installed["mods"] = mods
    return mods


def load_plain_unyt():
    """import the untouched unyt from REPO (concrete replay / conformance mode)"""
    if "unyt" not in sys.modules:
        sys.path.insert(0, REPO)
    import unyt
    if not os.path.realpath(unyt.__file__).startswith(os.path.realpath(REPO) + os.sep):
        raise HarnessError(f"unyt loaded from {unyt.__file__}, not from {REPO}")
    import unyt._array_functions as AF
    import unyt.array as UA
    import unyt.equivalencies as UE
    import unyt.testing as UT
    import unyt.unit_object as UO
    import unyt.unit_registry as UR
    import unyt.unit_systems as US
    return dict(unyt=unyt, UA=UA, UO=UO, UR=UR, US=US, UE=UE, UT=UT, AF=AF)


# ------------------------------------------------------------------ A7: state of the freshly imported library

import collections
import copy as _copy
import operator

_BOXES = (dict, list, set, collections.OrderedDict, collections.defaultdict)
_SIMPLE = (type(None), bool, int, float, complex, str, bytes, tuple, frozenset, np.dtype)
_MISSING = object()


def _box_same(box, saved):
    if len(box) != len(saved):
        return False
    if isinstance(box, dict):
        return box.keys() == saved.keys() and all(map(operator.is_, box.values(), saved.values())) \
            and all(map(operator.is_, box.keys(), saved.keys()))
    if isinstance(box, list):
        return all(map(operator.is_, box, saved))
    return box == saved  # sets hold hashable members


class LibraryState:
    """what `import unyt` (plus the shims) leaves in the module-level and class-level containers and simple globals of the unyt
    modules, and in the default registry's table and string cache. unyt's lru_caches are cleared at the start of a path; anything
    else a (changed) library keeps between calls - a memo table, a 'last dtype' global, a sticky flag on a shared object kept in a
    module dict - would leak from one case into the next inside a worker process, while a counterexample is replayed in a fresh
    interpreter and then does not reproduce. restore() puts everything back, so every path starts from the state of a freshly
    imported library (generalised from harness/c17.py, where a seeded module-level memo first showed the problem)."""

    def __init__(self, mods):
        self.owners = []
        for name, m in sorted(sys.modules.items()):
            if (name == "unyt" or name.startswith("unyt.")) and m is not None and ".tests" not in name:
                self.owners.append(m)
                for v in list(vars(m).values()):
                    if isinstance(v, type) and str(getattr(v, "__module__", "")).startswith("unyt") and v not in self.owners:
                        self.owners.append(v)
        self.boxes, self.names, seen = [], [], set()
        for o in self.owners:
            keys = {}
            for k, v in list(vars(o).items()):
                if k.startswith("__"):
                    continue
                if type(v) in _BOXES:
                    keys[k] = v
                    if id(v) not in seen:
                        seen.add(id(v))
                        self.boxes.append((v, _copy.copy(v)))
                elif type(v) in _SIMPLE:
                    keys[k] = v
            self.names.append((o, keys, len(vars(o))))
        dreg = mods["UR"].default_unit_registry
        for box in (dreg.lut, dreg._unit_object_cache):
            if id(box) not in seen:
                seen.add(id(box))
                self.boxes.append((box, _copy.copy(box)))
        self.dreg, self.dreg_id = dreg, dreg._unit_system_id

    def restore(self):
        for box, saved in self.boxes:
            if _box_same(box, saved):
                continue
            if isinstance(box, list):
                box[:] = saved
            else:
                box.clear()
                box.update(saved)
        self.dreg._unit_system_id = self.dreg_id
        for o, keys, size in self.names:
            now = vars(o)
            for k, v in keys.items():
                if now.get(k, _MISSING) is not v:
                    setattr(o, k, v)
            if len(now) == size:
                continue
            for k in [k for k, v in list(now.items()) if k not in keys and not k.startswith("__") and type(v) in _BOXES + _SIMPLE]:
                try:
                    delattr(o, k)
                except (AttributeError, TypeError):
                    pass


_state = {}
_cache_fns = []


def reset_library(mods):
    """start of a path / of a concrete run: module-level state and the default registry are put back to the import state and
    every lru_cache is cleared (clear_caches alone, which harnesses may call INSIDE a path, leaves module state alone)"""
    if os.environ.get("VERIF_PRISTINE", "1") != "0":
        st = _state.get(id(mods["unyt"]))
        if st is None:
            st = _state[id(mods["unyt"])] = LibraryState(mods)  # first call: nothing has run yet in this process
        else:
            st.restore()
    clear_caches(mods)


def clear_caches(mods):
    """A7: every lru_cache in unyt modules"""
    if not _cache_fns:
        for m in (mods["UA"], mods["UO"], mods["UR"], mods["US"], mods["UE"], mods["AF"]):
            for n, f in vars(m).items():
                if hasattr(f, "cache_clear") and callable(f.cache_clear):
                    if f not in _cache_fns:
                        _cache_fns.append(f)
    for f in _cache_fns:
        f.cache_clear()
