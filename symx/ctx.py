"""Harness contexts. A harness is one function h(ctx) written once and run in three modes:

  SymCtx            symbols are SymReal, unyt is shimmed, require() asks z3 for pc & not(P)
  SymCtx(pins=...)  conformance: symbols pinned to concrete numerals but still flowing through
                    the shimmed library in object arrays (single path)
  ConcreteCtx       replay/conformance: plain floats through the untouched library
"""
import hashlib
import math
import sys
import time
from fractions import Fraction

import numpy as np
import z3

from . import core
from .core import (And, Explorer, Implies, Not, Or, SymBool, SymReal, Unsupported, lift, model_value, obj0, rv)


class AssumptionFailed(core.ControlFlow):
    pass


def _pin_value(seed, name, pos=False, nonzero=False, lo=None, hi=None, integer=False):
    """deterministic 'nice' value for a symbol (exactly representable dyadic rational)"""
    for k in range(200):
        h = hashlib.sha256(f"{seed}:{name}:{k}".encode()).digest()
        n = int.from_bytes(h[:4], "big")
        if integer:
            v = Fraction(n % 9 - (0 if pos else 4))
        else:
            v = Fraction(n % 257 - (0 if pos else 128), 16)
            if pos:
                v = v / 4 + Fraction(1, 8)
        if pos and v <= 0:
            continue
        if nonzero and v == 0:
            continue
        if lo is not None and v < lo:
            continue
        if hi is not None and v > hi:
            continue
        return v
    raise ValueError(f"no pin for {name}")


class WarmAbort(core.ControlFlow):
    """an assumption of a warm-up case does not hold for its pinned numerals: the warm-up stops there (deterministically,
    in the symbolic run and in the replay alike) and the case proper starts"""


class _Warmup:
    def __init__(self, ctx, tag):
        self.ctx, self.tag = ctx, tag

    def __enter__(self):
        self.prev = self.ctx._warm
        self.ctx._warm = self.tag
        return self

    def __exit__(self, *exc):
        self.ctx._warm = self.prev
        return False


class BaseCtx:
    symbolic = False
    pinned = False
    WarmAbort = WarmAbort
    _warm = None  # tag of the warm-up in flight (symx.warm): symbols are pinned numerals, obligations and observations are muted

    def __init__(self):
        self.observations = []
        self.failed = []
        self.req_log = []

    def warmup(self, tag):
        return _Warmup(self, tag)

    @property
    def warming(self):
        return self._warm is not None

    # registry helpers shared by all modes ---------------------------------------------
    def registry(self, rows, defaults=True, unit_system=None):
        """rows: list of dict(name, dims, scale, offset=0.0, prefixable=False). scale/offset may be
        values obtained from ctx.real()."""
        UR = self.mods["UR"]
        reg = UR.UnitRegistry(add_default_symbols=defaults, unit_system=unit_system) if unit_system else UR.UnitRegistry(add_default_symbols=defaults)
        for r in rows:
            self.add_row(reg, **r)
        return reg

    def add_row(self, reg, name, dims, scale, offset=0.0, prefixable=False):
        tex = r"\rm{" + name.replace("_", r"\ ") + "}"
        if self.symbolic:
            reg.lut[name] = (scale, dims, offset, tex, prefixable)
            reg._unit_system_id = None
        else:
            reg.add(name, float(scale), dims, offset=float(offset) if offset is not None else None, prefixable=prefixable)

    def quantity(self, value, unit, reg=None):
        ua = self.mods["unyt"].unyt_array
        uq = self.mods["unyt"].unyt_quantity
        if isinstance(value, np.ndarray):
            if value.shape == ():
                return uq(value if self.symbolic else value[()], unit, registry=reg)
            return ua(value, unit, registry=reg)
        if self.symbolic:
            return uq(obj0(value), unit, registry=reg)
        return uq(value, unit, registry=reg)

    def observe(self, label, value):
        if self._warm is not None:
            return
        self.observations.append((label, value))

    def note(self, **kw):
        self.notes.update(kw)


class SymCtx(BaseCtx):
    symbolic = True

    def __init__(self, mods, ex, stats, case_id, pins=None, seed=0, oblig_timeout_ms=10000):
        super().__init__()
        self.mods = mods
        self.ex = ex
        self.stats = stats
        self.case_id = case_id
        self.pins = pins
        self._pinned = pins is not None
        self.seed = seed
        self.symbols = {}
        self.oblig_timeout_ms = oblig_timeout_ms
        self.path_obligs = 0
        self.path_sat = False
        self.notes = {}
        self.pending = []
        self.zsyms = {}

    @property
    def pinned(self):
        # inside a warm-up (symx.warm) the symbols are numerals: harness code that asks "are my symbols free?" gets the pinned answer
        return self._pinned or self._warm is not None

    def zconst(self, name, sort, default=None):
        """a symbol of a non-real z3 sort (Int, String, BitVec ...) for stand-alone solver queries inside a harness.
        Symbolic mode: the raw z3 constant (build formulas with z3 and wrap them in SymBool for require()).
        Pinned mode: the z3 value of `default`. Concrete mode (replay): the python int/str from the model, else `default`."""
        if self._warm is not None:
            name = self._warm + name
        if name in self.zsyms:
            return self.zsyms[name]
        if self.pinned or self._warm is not None:
            if sort == z3.IntSort():
                c = z3.IntVal(default)
            elif sort == z3.StringSort():
                c = z3.StringVal(default)
            elif z3.is_bv_sort(sort):
                c = z3.BitVecVal(default, sort.size())
            else:
                raise Unsupported(f"zconst default for sort {sort}")
        else:
            c = z3.Const(name, sort)
        self.zsyms[name] = c
        return c

    def real(self, name, pos=False, nonzero=False, lo=None, hi=None, integer=False):
        if self._warm is not None:
            name = self._warm + name
            if name not in self.symbols:
                self.symbols[name] = (SymReal(rv(_pin_value("warm", name, pos, nonzero, lo, hi, integer))), dict(pos=pos))
            return self.symbols[name][0]
        if name in self.symbols:
            return self.symbols[name][0]
        if self.pinned:
            if name in self.pins:
                v = Fraction(self.pins[name])
            else:
                v = _pin_value(self.seed, name, pos, nonzero, lo, hi, integer)
            s = SymReal(rv(v))
            self.symbols[name] = (s, dict(pos=pos))
            return s
        s = SymReal(name)
        self.symbols[name] = (s, dict(pos=pos, nonzero=nonzero, lo=lo, hi=hi, integer=integer))
        if pos:
            self.ex.assume(s.t > 0)
            self.ex.mark_positive(s.t)
        if nonzero:
            self.ex.assume(s.t != 0)
        if lo is not None:
            self.ex.assume(s.t >= rv(Fraction(lo)))
        if hi is not None:
            self.ex.assume(s.t <= rv(Fraction(hi)))
        if integer:
            self.ex.assume(z3.ToReal(z3.ToInt(s.t)) == s.t)
        return s

    def reals(self, name, shape, **kw):
        a = np.empty(shape, dtype=object)
        for idx in np.ndindex(*shape):
            a[idx] = self.real(name + "".join(f"_{i}" for i in idx), **kw)
        return a

    def const(self, v):
        """a concrete number in the representation payloads use in this mode"""
        return v

    def const_array(self, values):
        a = np.asarray(values, dtype=float)
        o = np.empty(a.shape, dtype=object)
        for idx in np.ndindex(*a.shape):
            o[idx] = SymReal(rv(float(a[idx])))
        return o

    def assume(self, cond):
        if self._warm is not None:
            if isinstance(cond, SymBool):
                t = z3.simplify(cond.t)
                if z3.is_false(t):
                    raise WarmAbort()
            elif not cond:
                raise WarmAbort()
            return
        if isinstance(cond, SymBool):
            self.ex.assume(cond.t)
        elif not cond:
            raise core.Infeasible()

    # ------------------------------------------------------------------ obligations
    def require(self, label, cond, **info):
        if self._warm is not None:
            return True
        st = self.stats
        st["requires"] += 1
        self.path_obligs += 1
        # to_solver=True: hand a symbolic condition to the solver even if the simplifier alone already reduces it to true
        force = bool(info.pop("to_solver", False)) and not self.pinned
        if not isinstance(cond, SymBool):
            if bool(cond):
                st["ground_true"] += 1
                self.req_log.append((label, True))
                return True
            term = z3.BoolVal(False)
        else:
            term = z3.simplify(cond.t)
            if z3.is_true(term) and not force:
                st["ground_true"] += 1
                self.req_log.append((label, True))
                return True
            if force:
                term = cond.t  # the solver gets the condition as the harness built it
        if self.pinned:
            ok = z3.is_true(term)
            self.req_log.append((label, ok))
            return ok
        st["obligations"] += 1
        self.pending.append((label, term, info))
        return None

    def _query(self, term, timeout_ms):
        st = self.stats
        s = z3.Solver()
        s.set("timeout", timeout_ms)
        s.add(*self.ex.pc)
        s.add(z3.Not(term))
        t0 = time.time()
        r = s.check()
        dt = time.time() - t0
        st["solver_s"] += dt
        st["queries"] += 1
        st["max_query_s"] = max(st["max_query_s"], dt)
        if r != z3.unknown and st.get("cross_left", 0) > 0:
            st["cross_left"] -= 1
            self._cross_check(r, s)
        return r, s

    def _cross_check(self, r, s):
        """second opinion: the same query (SMT-LIB2 text dumped by z3) is decided by cvc5; a disagreement is a harness
        error (the run is inconclusive), cvc5 unknown / unsupported syntax is only counted"""
        st = self.stats
        c = st.setdefault("cross", dict(checked=0, agree=0, unknown=0, error=0, disagree=[], cvc5_s=0.0))
        c["checked"] += 1
        t0 = time.time()
        try:
            ans = core.cvc5_check(s.to_smt2(), int(st.get("cross_timeout_ms", 4000)))
        except Exception as e:  # parse error on a z3-only operator, missing wheel ...
            c["error"] += 1
            c.setdefault("errors", [])
            if len(c["errors"]) < 3:
                c["errors"].append(f"{type(e).__name__}: {str(e)[:160]}")
            return
        finally:
            c["cvc5_s"] += time.time() - t0
        if ans == str(r):
            c["agree"] += 1
        elif ans in ("sat", "unsat"):
            c["disagree"].append(f"{self.case_id}: z3 {r} / cvc5 {ans}")
        else:
            c["unknown"] += 1

    def _discharge(self):
        """obligations of this path: one batched query for the conjunction; individual queries only
        if the conjunction is not proved. Obligations are evaluated under the path condition at the end
        of the path: sound because every model of an earlier, weaker pc extends to exactly one explored
        path on which the same obligation term is generated."""
        st = self.stats
        pend, self.pending = self.pending, []
        if not pend:
            return
        if len(pend) > 1 and not getattr(self, "no_batch", False):  # a harness may set ctx.no_batch = True (nonlinear obligations: one query each is faster)
            r, s = self._query(z3.And(*[t for _, t, _ in pend]), self.oblig_timeout_ms)
            if len(st["samples"]) < 2:
                st["samples"].append({"case": self.case_id, "labels": [l for l, _, _ in pend][:12], "result": str(r), "smt2": s.to_smt2()[:2500]})
            if r == z3.unsat:
                st["discharged"] += len(pend)
                for l, _, _ in pend:
                    self.req_log.append((l, True))
                return
        for label, term, info in pend:
            r, s = self._query(term, self.oblig_timeout_ms)
            if r == z3.unknown:
                # one retry with a fresh solver and four times the budget (a loaded machine must not turn a
                # millisecond query into an inconclusive run); still unknown => inconclusive, never a pass
                r, s = self._query(term, 4 * self.oblig_timeout_ms)
                st["retried_unknown"] = st.get("retried_unknown", 0) + 1
            if len(pend) == 1 and len(st["samples"]) < 2:
                st["samples"].append({"case": self.case_id, "labels": [label], "result": str(r), "smt2": s.to_smt2()[:2500]})
            if r == z3.unsat:
                st["discharged"] += 1
                self.req_log.append((label, True))
            elif r == z3.unknown:
                st["unknown"] += 1
                st["unknown_labels"].append(label)
            else:
                self.path_sat = True
                models = self._models(s, term)
                st["candidates"].append({"case": self.case_id, "label": label, "models": models,
                                         "info": {k: str(v)[:300] for k, v in info.items()}})
                self.req_log.append((label, False))

    def _extract(self, m):
        out = {}
        for name, (s, _) in self.symbols.items():
            try:
                v = model_value(m, s.t)
            except Exception:
                v = Fraction(0)
            out[name] = f"{v.numerator}/{v.denominator}"
        for name, c in self.zsyms.items():
            v = m.eval(c, model_completion=True)
            if z3.is_int_value(v) or z3.is_bv_value(v):
                out[name] = f"int:{v.as_long()}"
            elif z3.is_string_value(v):
                out[name] = "str:" + v.as_string()
            else:
                out[name] = "sexpr:" + v.sexpr()
        return out

    def _models(self, s, term):
        """up to three models: a 'nice' one (small dyadic rationals, exactly representable), the
        solver's default one, and one more after blocking"""
        models = []
        default = self._extract(s.model())
        nice = z3.Solver()
        nice.set("timeout", 3000)
        nice.add(*self.ex.pc)
        nice.add(z3.Not(term))
        for name, (sym, meta) in self.symbols.items():
            k = z3.Int(f"nice!{name}")
            nice.add(sym.t * 8 == z3.ToReal(k), k >= -8 * 64, k <= 8 * 64)
        if nice.check() == z3.sat:
            models.append(self._extract(nice.model()))
        models.append(default)
        return models

    def end_path(self):
        """vacuity guard first: is this path's condition satisfiable? obligations of an infeasible path
        are dropped (not counted as discharged)"""
        st = self.stats
        if self.pinned:
            return
        if self.path_obligs == 0:
            return
        st["paths_with_requires"] += 1
        if self.pending:
            s = z3.Solver()
            s.set("timeout", 2000)
            s.add(*self.ex.pc)
            t0 = time.time()
            r = s.check()
            if r == z3.unknown:
                # a loaded machine or a hard non-linear pc: one retry with the obligation budget
                s.set("timeout", max(20000, self.oblig_timeout_ms))
                r = s.check()
                st["queries"] += 1
            st["solver_s"] += time.time() - t0
            st["queries"] += 1
            if r == z3.unsat:
                st["paths_infeasible"] += 1
                st["obligations"] -= len(self.pending)
                st["dropped_infeasible"] += len(self.pending)
                self.pending = []
                return
            if r == z3.sat:
                st["paths_witnessed"] += 1
            else:
                st["paths_unwitnessed"] += 1
            self._discharge()
        else:
            st["paths_ground_only"] += 1


class ConcreteCtx(BaseCtx):
    """plain floats on the untouched library"""

    def __init__(self, mods, model=None, seed=0):
        super().__init__()
        self.mods = mods
        self.model = model
        self.seed = seed
        self.symbols = {}
        self.notes = {}

    def real(self, name, pos=False, nonzero=False, lo=None, hi=None, integer=False):
        if self._warm is not None:
            name = self._warm + name
            if name not in self.symbols:
                self.symbols[name] = float(_pin_value("warm", name, pos, nonzero, lo, hi, integer))
            return self.symbols[name]
        if name in self.symbols:
            return self.symbols[name]
        if self.model is not None:
            if name in self.model:
                v = float(Fraction(self.model[name]))
            else:
                v = 1.0 if pos or nonzero else 0.0
        else:
            v = float(_pin_value(self.seed, name, pos, nonzero, lo, hi, integer))
        self.symbols[name] = v
        return v

    def zconst(self, name, sort, default=None):
        if self._warm is not None:
            return default
        v = (self.model or {}).get(name)
        if v is None:
            return default
        kind, _, body = v.partition(":")
        if kind == "int":
            return int(body)
        if kind == "str":
            return body
        return v

    def reals(self, name, shape, **kw):
        a = np.empty(shape, dtype=float)
        for idx in np.ndindex(*shape):
            a[idx] = self.real(name + "".join(f"_{i}" for i in idx), **kw)
        return a

    def const(self, v):
        return v

    def const_array(self, values):
        return np.asarray(values, dtype=float)

    def assume(self, cond):
        if self._warm is not None:
            if not cond:
                raise WarmAbort()
            return
        if not cond:
            raise AssumptionFailed()

    def require(self, label, cond, **info):
        if self._warm is not None:
            return True
        info.pop("to_solver", None)
        ok = bool(cond)
        self.req_log.append((label, ok))
        if not ok:
            self.failed.append((label, {k: str(v)[:300] for k, v in info.items()}))
        return ok

    def end_path(self):
        pass
