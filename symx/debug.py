"""debug aid: run one case pinned to a model through the shimmed library and print the require log"""
import json, sys, importlib, os
ROOT = os.path.dirname(os.path.dirname(os.path.abspath(__file__)))
sys.path.insert(0, ROOT)
from . import shims, core
from .ctx import SymCtx
from .run import _new_stats, _num
def main():
    path = sys.argv[1]
    d = json.load(open(path))
    mods = shims.load_unyt()
    H = importlib.import_module(f"harness.{d['property'].lower()}")
    case = {c.id: c for c in H.cases(d['tier'], mods)}[d['case']]
    box = {}
    def body(ex):
        shims.reset_library(mods)
        ctx = SymCtx(mods, ex, _new_stats('p'), case.id, pins=d['model'], seed=0)
        box['ctx'] = ctx
        return case.fn(ctx)
    res, _ = core.explore(body, max_paths=3)
    for ex, out in res:
        print('outcome', out)
    ctx = box['ctx']
    for l, ok in ctx.req_log: print('REQ', l, ok)
    for l, v in ctx.observations: print('OBS', l, _num(v))
main()
