class Case:
    """one harness configuration: a discrete point of the enumerated axes; the continuous axes
    are the symbols the harness function declares through ctx.real()."""

    def __init__(self, id, fn, bounds="", budget_s=120.0, max_paths=4000, oblig_timeout_ms=None,
                 weight=1, conform=True, allow_unsupported=False, group=None):
        self.id = id
        self.fn = fn
        self.bounds = bounds
        self.budget_s = budget_s
        self.max_paths = max_paths
        self.oblig_timeout_ms = oblig_timeout_ms
        self.weight = weight
        self.conform = conform
        self.allow_unsupported = allow_unsupported
        self.group = group or id.split("/")[1] if "/" in id else id

    def __repr__(self):
        return f"Case({self.id})"


def call(fn, *a, **k):
    """run a call of the library under test; exceptions of the library become values.
    Engine control exceptions (BaseException) pass through."""
    try:
        return ("ok", fn(*a, **k))
    except Exception as e:  # noqa: BLE001 - deliberately broad: the library raised
        return ("raise", e)
