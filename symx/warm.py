"""History axis for every harness: `<case>@after[<other case>]`.

The properties promise that the outcome of a call depends on its arguments and on the registry contents, not on which
calls were made earlier in the process. The engine resets the library at the start of every path (A7), so a case explored
on its own always sees a cold library. A *warm variant* of a case c runs another case w of the same harness first - in the
same path, without any reset in between, with w's symbols pinned to fixed numerals and w's obligations muted - and then runs
c unchanged: all of c's obligations must still be proved for all values. Anything w leaves behind (memo tables keyed by
spelling, by unit pair, by dtype, by registry table; shared unit objects; module-level flags) is there when c runs.

Which w for which c is a discrete axis: by default a seeded sample of (c, w) pairs in which w differs from c in exactly one
'/'-separated component of the case id (same units with another operation, same operation with other operand kinds ...);
a harness may add pairs with `WARM_PARTNERS(cases) -> {case id: [case ids]}`. The replay of a counterexample runs the same
warm-up (same numerals) on the plain library before the case.
"""
import fnmatch
import os
import random

from .case import Case

SEP = "@after["


def is_warm(case_id):
    return SEP in case_id


def base_id(case_id):
    return case_id.split(SEP, 1)[0]


def parse(case_id):
    b, _, rest = case_id.partition(SEP)
    assert rest.endswith("]")
    return b, rest[:-1].split("][")


def make(c, ws):
    from . import core

    def fn(ctx, c=c, ws=ws):
        for k, w in enumerate(ws):
            with ctx.warmup(f"w{k}!"):
                try:
                    w.fn(ctx)
                except ctx.WarmAbort:
                    pass
                except (core.Unsupported, core.DomainExit):
                    pass
                except Exception:  # noqa: BLE001 - the library refused something inside the warm-up: that is a history too
                    pass
        return c.fn(ctx)

    v = Case(c.id + SEP + "][".join(w.id for w in ws) + "]", fn, bounds=c.bounds, budget_s=c.budget_s, max_paths=c.max_paths,
             oblig_timeout_ms=c.oblig_timeout_ms, weight=c.weight, conform=False, allow_unsupported=c.allow_unsupported, group=c.group)
    v.warm_of = c.id
    return v


def resolve(by_id, case_id):
    """build the warm variant named by case_id from the base cases (used by the replay, which must not depend on the sample)"""
    b, ws = parse(case_id)
    if b not in by_id or any(w not in by_id for w in ws):
        return None
    return make(by_id[b], [by_id[w] for w in ws])


def _known_case_patterns(known, prop):
    return [k["pattern"].split("::", 1)[0] for k in known if k.get("property") == prop and k.get("status") == "known"]


def expand(H, cases, tier, seed, known=(), prop=None):
    """the warm variants to explore in this run (seeded sample; the rule and the count go into the evidence)"""
    if getattr(H, "WARM", True) is False:
        return [], dict(variants=0, rule="switched off by the harness")
    frac = float(os.environ.get("VERIF_WARM_FRACTION", getattr(H, "WARM_FRACTION", {}).get(tier, 0.12 if tier == "quick" else 0.6)))
    cap = int(os.environ.get("VERIF_WARM_CAP", getattr(H, "WARM_CAP", {}).get(tier, 90 if tier == "quick" else 900)))
    if frac <= 0 or cap <= 0 or len(cases) < 2:
        return [], dict(variants=0, rule="none")
    rnd = random.Random(1000003 * seed + 17)
    pats = _known_case_patterns(known, prop)
    # a case that shows a recorded defect of unyt is never used as a warm-up: what it leaves behind is part of that finding
    usable = [not any(fnmatch.fnmatchcase(c.id, p) for p in pats) and getattr(c, "warm_ok", True) for c in cases]
    by_key = {}
    for i, c in enumerate(cases):
        if not usable[i]:
            continue
        parts = c.id.split("/")
        for p in range(1, len(parts)):
            by_key.setdefault((len(parts), p, tuple(parts[:p] + ["*"] + parts[p + 1:])), []).append(i)
    by_id = {c.id: c for c in cases}
    hints = {}
    if hasattr(H, "WARM_PARTNERS"):
        hints = H.WARM_PARTNERS(cases) or {}
    out, seen = [], set()
    # harness-given pairs first (all of them in the thorough tier, a sample in the quick tier)
    hinted = [(cid, w) for cid, ws in sorted(hints.items()) for w in ws if cid in by_id and all(x in by_id for x in (w if isinstance(w, (list, tuple)) else [w]))]
    if tier == "quick" and len(hinted) > cap // 2:
        hinted = rnd.sample(hinted, cap // 2)
    for cid, w in hinted:
        ws = list(w) if isinstance(w, (list, tuple)) else [w]
        v = make(by_id[cid], [by_id[x] for x in ws])
        if v.id not in seen:
            seen.add(v.id)
            out.append(v)
    want = min(cap - len(out), int(frac * len(cases)) + 1)
    idxs = [i for i, c in enumerate(cases) if getattr(c, "warm_target", True)]
    rnd.shuffle(idxs)
    for i in idxs:
        if want <= 0:
            break
        c = cases[i]
        parts = c.id.split("/")
        keys = [(len(parts), p, tuple(parts[:p] + ["*"] + parts[p + 1:])) for p in range(1, len(parts))]
        keys = [k for k in keys if len([j for j in by_key.get(k, ()) if j != i]) >= 1]
        if keys:
            k = rnd.choice(keys)
            j = rnd.choice([j for j in by_key[k] if j != i])
        else:
            cand = [j for j in range(len(cases)) if j != i and usable[j]]
            if not cand:
                continue
            j = rnd.choice(cand)
        ws = [cases[j]]
        if tier == "thorough" and rnd.random() < 0.3:  # some two-step histories
            j2 = rnd.choice([x for x in range(len(cases)) if usable[x] and x != i] or [j])
            ws = [cases[j2], cases[j]]
        v = make(c, ws)
        if v.id in seen:
            continue
        seen.add(v.id)
        out.append(v)
        want -= 1
    info = dict(variants=len(out), harness_given_pairs=len(hinted),
                rule=("history axis: each variant runs another case of this harness first (symbols pinned, obligations muted, no reset in "
                      "between) and then the case itself with all its obligations; partners differ from the case in exactly one component "
                      f"of the case id; seeded sample (fraction {frac}, cap {cap}) - the history axis is sampled, not exhaustive"))
    return out, info
